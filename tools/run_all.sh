#!/bin/bash
# runs every registered check once (tier $1, default quick) and prints one line per property
cd "$(dirname "$0")/.."
TIER="${1:-quick}"
for p in $(python3 -c "import json;print(' '.join(c['property_id'] for c in json.load(open('MANIFEST.json'))['checks']))"); do
  s=$(date +%s)
  out=$(./check $p $TIER 2>&1); rc=$?
  e=$(date +%s)
  echo "$p rc=$rc t=$((e-s))s $(echo "$out" | grep -E '^property=' | cut -c1-160)"
  echo "$out" | grep -E "VIOLATION|KNOWN-FINDING|HARNESS" | cut -c1-300
done
