#!/usr/bin/env python3
"""Re-runs, on a scratch copy of /repo and of the simulator, the check of its own property against every seeded
change in /verif/seeded (and every own mutant in /verif/mutants), so that a change of the machinery cannot silently
lose a detection. /repo and /verif/evidence are not touched.
usage: tools/seeded_recheck.py [name-filter]      results: /verif/seeded/RECHECK.jsonl (one line per change)"""
import os, re, sys, json, glob, shutil, subprocess, time

ROOT = f"/tmp/sr-{os.getpid()}"
REPO = ROOT + "/repo"
SIM = ROOT + "/sim"
VDIR = ROOT + "/verif"
ENV = dict(os.environ, CARGO_NET_OFFLINE="true", RSIM_VERIF_DIR=VDIR, RSIM_NO_MINIMISE="1")

def sh(cmd, cwd=None, timeout=1800):
    try:
        p = subprocess.run(cmd, shell=True, cwd=cwd, env=ENV, capture_output=True, text=True, timeout=timeout)
        return p.returncode, p.stdout + p.stderr
    except subprocess.TimeoutExpired:
        return 124, "timeout"

def setup():
    shutil.rmtree(ROOT, ignore_errors=True)
    os.makedirs(VDIR)
    sh(f"cp -a /repo {REPO}; rm -rf {REPO}/target")
    sh(f"mkdir -p {SIM} && cp -a /verif/sim/src /verif/sim/Cargo.toml /verif/sim/Cargo.lock /verif/sim/.cargo {SIM}/")
    for f in [SIM + "/Cargo.toml", SIM + "/src/scen.rs"]:
        s = open(f).read().replace("/repo/rarena-allocator", REPO + "/rarena-allocator")
        open(f, "w").write(s)
    shutil.copy("/verif/known_findings.jsonl", VDIR + "/known_findings.jsonl")

def build():
    rc, out = sh("cargo build --release --offline", cwd=SIM)
    if rc != 0:
        return False
    rc, out = sh("cargo build --profile checked --offline", cwd=SIM)
    return rc == 0

def main():
    filt = sys.argv[1] if len(sys.argv) > 1 else ""
    items = []
    for d in sorted(glob.glob("/verif/seeded/*/patch.diff")):
        name = d.split("/")[-2]
        prop = name.split("-")[0]
        # a change that breaks the contract of another property than the one it was written against (recorded in
        # its meta.json as "recheck_property") is re-run against the check that states that contract
        try:
            prop = json.load(open(os.path.dirname(d) + "/meta.json")).get("recheck_property", prop)
        except Exception:
            pass
        items.append((name, prop, d))
    expect = dict(l.split()[:2] for l in open("/verif/mutants/EXPECT") if l.strip())
    for d in sorted(glob.glob("/verif/mutants/*.patch")):
        name = os.path.basename(d)[:-6]
        if name in expect:
            items.append(("mutant:" + name, expect[name], d))
    items = [x for x in items if filt in x[0]]
    setup()
    out_path = "/verif/seeded/RECHECK.jsonl"
    res = []
    for (name, prop, patch) in items:
        t0 = time.time()
        sh(f"git -C {REPO} checkout -q -- .")
        rc, out = sh(f"git -C {REPO} apply {patch}")
        rec = {"change": name, "property": prop}
        if rc != 0:
            rec["status"] = "stale-patch"
        elif not build():
            rec["status"] = "does-not-build"
        else:
            env = f"RSIM_CHECKED_EXE={SIM}/target/checked/rsim " if prop in ("C04", "C09", "C13", "C16") else ""
            rc, out = sh(f"{env}{SIM}/target/release/rsim check {prop} --tier quick", cwd=SIM)
            m = re.search(r"replay=\S*/([^/\s]+)\.json", out)
            rec["status"] = "caught" if rc == 1 and m else ("missed" if rc == 0 else f"rc={rc}")
            rec["first_replay"] = m.group(1) if m else None
        rec["t"] = round(time.time() - t0, 1)
        res.append(rec)
        print(json.dumps(rec), flush=True)
    sh(f"git -C {REPO} checkout -q -- .")
    if not filt:
        with open(out_path, "w") as f:
            for r in res:
                f.write(json.dumps(r) + "\n")
    shutil.rmtree(ROOT, ignore_errors=True)
    bad = [r for r in res if r["status"] != "caught"]
    print(f"{len(res) - len(bad)}/{len(res)} caught; not caught: {[r['change'] for r in bad]}")
    sys.exit(1 if bad else 0)

if __name__ == "__main__":
    main()
