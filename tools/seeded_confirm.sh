#!/bin/bash
# Confirms a seeded change delivered in <worktree>/OUT: (1) demo passes without the patch, (2) existing suites pass with
# the patch, (3) demo fails with the patch; then copies it to /verif/seeded/<name>/ and runs the given checks against it
# (patch applied to /repo, undone straight afterwards).
# usage: tools/seeded_confirm.sh <name> <worktree> "<demo cargo test args>" "<props to run>"
set -u
name="$1"; wt="$2"; demo_args="$3"; props="$4"
cd "$wt" || exit 2
git checkout -q -- . ; mkdir -p rarena-allocator/tests
cp -r OUT/demo/* rarena-allocator/tests/ 2>/dev/null; rm -f rarena-allocator/tests/README.md
export CARGO_NET_OFFLINE=true
run_demo() { timeout 300 cargo test -p rarena-allocator --offline $demo_args >"$wt/OUT/demo_$1.log" 2>&1; echo $?; }
r0=$(run_demo without)
git apply OUT/patch.diff || { echo "PATCH-DOES-NOT-APPLY $name"; exit 1; }
t1=$(cargo test --workspace --no-fail-fast --offline 2>&1 | grep -E "^test result" | head -2 | tr '\n' ' ')
t2=$(cargo test -p rarena-allocator --features memmap --offline 2>&1 | grep -E "^test result" | head -1)
r1=$(run_demo with)
git checkout -q -- . ; rm -rf rarena-allocator/tests
echo "$name: demo without patch rc=$r0 (want 0); with patch rc=$r1 (want !=0); suite: $t1 | memmap: $t2"
mkdir -p /verif/seeded/$name && cp -r OUT/patch.diff OUT/demo OUT/meta.json /verif/seeded/$name/ 
cd /verif
# the evidence files belong to the unchanged tree: keep them
EVBAK=$(mktemp -d /dev/shm/evbak.XXXXXX); cp -a evidence/. $EVBAK/ 2>/dev/null
res=""
if git -C /repo diff --quiet && git -C /repo apply /verif/seeded/$name/patch.diff; then
  for p in $props; do
    out=$(./check $p quick 2>&1); rc=$?
    res="$res $p:rc=$rc:$(echo "$out" | grep -m1 -o 'replay=[^ ]*' | sed 's/.*replays.//')"
  done
  git -C /repo checkout -- .
else res="could not apply to /repo"; fi
cp -a $EVBAK/. evidence/ 2>/dev/null; rm -rf $EVBAK
echo "$name: checks ->$res"
python3 - "$name" "$r0" "$r1" "$t1" "$t2" "$res" <<'PY'
import json,sys
name,r0,r1,t1,t2,res=sys.argv[1:7]
p=f"/verif/seeded/{name}/meta.json"
m=json.load(open(p))
m["confirmed_by_me"]={"demo_rc_without_patch":int(r0),"demo_rc_with_patch":int(r1),"existing_suite_with_patch":t1.strip(),"memmap_suite_with_patch":t2.strip(),"checks_run_against_it":res.strip()}
json.dump(m,open(p,"w"),indent=1)
PY
