#!/usr/bin/env python3
"""Writes /verif/MANIFEST.json from the table below (kept in one place so that it stays valid)."""
import json, subprocess, os

HOOK_COMMITS = subprocess.run(["git", "-C", "/repo", "log", "--format=%H %s", "--grep=verif hooks"], capture_output=True, text=True).stdout.strip().splitlines()

SIM = "deterministic simulation: seeded history/schedule/fault search with shadow-store and snapshot oracles (rsim)"
checks = {
 "C01": ("exploration", "ST-HIST: seeded single-client histories over all configurations, shadow store compared after every step", "§3 C01", "seeded single-client history simulation + shadow store"),
 "C02": ("exploration", "MT-SCHED: seeded schedules (random / sticky / PCT / targeted / stall-before-CAS / victim-stall, spurious weak-CAS) of 2-4 real threads under the baton scheduler at atomic-access granularity, one third of them recycle-heavy runs on a nearly full arena; per-step shadow comparison, address checks", "§3 C02", "deterministic scheduler simulation (seeded interleavings + spurious CAS) with per-step shadow-store oracle"),
 "C03": ("exploration", "ST-HIST engineered for cursor residues and typed slow-path requests; per-call layout predicate", "§3 C03", "seeded single-client history simulation + per-call layout predicate"),
 "C04": ("exploration", "ST-HIST with boundary-dense sizes in two build profiles (release, overflow-checked), maximum_retries 0..=5, two 4 GiB arenas with the cursor at their end per batch; error atomicity via snapshots; panics / out-of-arena accesses intercepted by the hook", "§3 C04", "seeded history simulation with boundary-dense inputs, two build profiles, hook-level out-of-arena interception"),
 "C05": ("exploration", "FILE-HIST: histories cut by close+reopen in 4 modes x 4 capacity choices (same, larger, absent, smaller but not below the cursor) with a durable model carried across restarts; the file itself is compared at the end of every copy-on-write / read-only session", "§3 C05", "seeded history simulation with restart (close/reopen) faults + durable reference model"),
 "C07": ("exploration", "MT-SCHED with busy-wait parking and bounded-progress verdicts V1-V3 under a fairness rule", "§3 C07", "deterministic scheduler simulation with busy-wait detector and bounded-progress verdicts"),
 "C08": ("exploration", "ST-HIST / FILE-HIST where every owner dirties its buffer before release; all-zero at return", "§3 C08", "seeded single-client history simulation (dirty-then-release) "),
 "C10": ("exploration", "ST-HIST with min-segment changes and discard; snapshot well-formedness + policy oracle from the pre-call snapshot", "§3 C10", "seeded single-client history simulation + free-list snapshot invariants and policy oracle"),
 "C12": ("exploration", "MT-SCHED incl. clone/drop/owned hand-over and teardown inside the simulation; FastTrack-style vector clocks with release sequences from the orderings the code passes", "§3 C12", "deterministic scheduler simulation + vector-clock happens-before checker over the recorded orderings"),
 "C13": ("exploration", "ST-HIST over clone/alloc/to-owned/detach/drop orders (even runs) and MT-SCHED over clone/drop/owned interleavings with teardown inside the simulation (odd runs); every second worker in the build profile with debug assertions", "§3 C13", "seeded history + scheduler simulation with release-once accounting, refs and teardown-callback oracles"),
 "C16": ("exploration", "CONFIG sweep (reserved 0..=4096 exhaustively x unify x 3 backends x 2 flavours x capacities around the prefix) + ST-HIST per-step layout oracles + the same history on Vec / anon / file arenas side by side with byte-identical memory()", "§3 C16", "seeded single-client history simulation + layout oracles"),
 "C17": ("exploration", "ST-HIST with boundary-dense rewind positions vs an i128 reference clamp; clear() checked in place and differentially: cleared arena vs freshly constructed arena under the same subsequent history", "§3 C17", "seeded single-client history simulation + reference clamp"),
 "C18": ("exploration", "TRUNC: unsync histories with truncate(n) on 3 backends incl. copy-on-write and read-only sessions and, in a quarter of the runs, with clones / owned handles alive; before/after snapshots, file bytes, later allocations", "§3 C18", "seeded single-client history simulation with backing-store change (truncate) as a generated fault"),
 "C20": ("exploration", "ST-HIST with discard_freelist / increase_discarded / set_minimum_segment_size anywhere; snapshot-based accounting", "§3 C20", "seeded single-client history simulation + accounting oracle"),
}
pending = {}
checks["C06"] = ("fault_enumeration", "CRASH: every atomic step of every operation of a file-backed history is a crash point (all of them per history in the thorough tier, every third plus operation boundaries in the quick tier); image written to a fresh file and opened with the real map_mut; histories include truncate and close+reopen (in a copy-on-write / read-only session the crash image is the file); post-crash workload under a per-call step budget", "§3 C06", "crash-point enumeration at atomic-step granularity + reopen + post-crash workload (deterministic simulation)")
checks["C09"] = ("fault_enumeration", "CORRUPT: per base file one identification byte x all 256 values / every truncation length / garbage files, each x 4 open variants x 3 capacity choices x expected freelist/magic right or wrong; read-only sessions of mutating safe calls; a quarter of the base files mapped at offset 4096; every second worker in the overflow-checked build profile; expected outcome computed from the statement, refused opens must leave the file bytes unchanged", "§3 C09", "stored-byte fault enumeration on arena files + read-only session simulation")
checks["C11"] = ("exploration", "DIFF: one seeded operation sequence over the whole single-thread-usable trait surface executed in lock-step on sync::Arena (with spurious weak-CAS failures) and unsync::Arena as the executable reference model; equal observation tuples after every step", "§3 C11", "differential simulation against the single-threaded arena as executable reference model")
na = {
 "C14": "pure function of the call arguments and one privately owned (offset, capacity, len) triple: no schedule, fault, crash point or shared history enters it, so deterministic simulation with fault injection has nothing to decide (DESIGN.md §4)",
 "C15": "pure function of (bytes, allocated(), offset); histories only produce contents; nothing for a scheduler or fault injector to decide (DESIGN.md §4)",
 "C19": "pure function of the allocated bytes, reserved length and page size; no schedule, fault or interleaving in it (DESIGN.md §4)",
}
extra = os.path.join(os.path.dirname(__file__), "manifest_extra.json")
if os.path.exists(extra):
    e = json.load(open(extra))
    for k, v in e.get("checks", {}).items():
        checks[k] = tuple(v)
        pending.pop(k, None)

m = {
 "version": 1,
 "setup_cmd": "./check build",
 "hooks": {
   "guard": "cargo feature verif-hooks of rarena-allocator (off by default)",
   "enable": "rsim depends on /repo/rarena-allocator by path with features std,memmap,verif-hooks; ./check rebuilds it from the working tree on every invocation",
   "baseline_off_cmd": "cd /repo && cargo nextest run --workspace --no-fail-fast --offline || cargo test --workspace --no-fail-fast --offline",
   "source_commits": [l.split()[0] for l in HOOK_COMMITS],
   "add_only": True,
 },
 "engines": [
   {"name": "rsim", "path": "sim", "serves_properties": sorted(checks.keys()), "kind_free_text": "own deterministic simulator: wrapper-atomics seam, baton scheduler over real threads, seeded history/schedule/fault generators, shadow-store / snapshot / vector-clock oracles, replay files and minimiser"},
 ],
 "checks": [],
 "notes": "All checks: ./check <ID> quick|thorough; replay: ./check replay <file>. Known findings: known_findings.jsonl (never written at run time). See DESIGN.md.",
 "not_applicable": [{"property_id": k, "reason": v} for k, v in sorted({**na, **pending}.items())],
}
for pid in sorted(checks):
    lvl, text, ref, tech = checks[pid]
    m["checks"].append({
      "property_id": pid,
      "quick_cmd": f"./check {pid} quick",
      "thorough_cmd": f"./check {pid} thorough",
      "evidence_file": f"evidence/{pid}.json",
      "replay_cmd_template": "./check replay {path}",
      "engine": "rsim",
      "level_claimed": {"category": lvl, "text": text + ". Sampling, not enumeration: a clean batch is evidence, not proof.", "design_ref": "DESIGN.md " + ref},
      "level_note": "trusted base: the simulator's oracles and shadow model (sim/src), the wrapper-atomics seam (feature verif-hooks), rustc/LLVM, Linux tmpfs/mmap; only sequentially consistent interleavings are executed",
      "technique": tech,
    })
json.dump(m, open("/verif/MANIFEST.json", "w"), indent=1)
print("wrote MANIFEST.json with", len(m["checks"]), "checks")
