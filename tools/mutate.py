#!/usr/bin/env python3
"""Mutation run: applies simple operator mutations to a scratch copy of rarena, keeps the ones that compile and pass
the repository's own 68 tests, and runs a reduced batch of every check against each. Survivors (no check reports a
violation) are blind spots or equivalent mutants and are triaged by hand.
usage: tools/mutate.py <count> [seed]      results: /verif/mutation/results.jsonl"""
import os, re, sys, json, random, shutil, subprocess, time

ROOT = "/tmp/mut"
REPO = ROOT + "/repo"
SIM = ROOT + "/sim"
VDIR = ROOT + "/verif"
FILES = ["sync.rs", "unsync.rs", "memory.rs", "lib.rs", "bytes.rs", "object.rs", "options/open_options.rs"]
PROPS = [("C01", 150000), ("C10", 150000), ("C13", 80000), ("C20", 150000), ("C03", 150000), ("C04", 120000), ("C08", 150000), ("C11", 150000),
         ("C17", 150000), ("C16", 150000), ("C18", 150000), ("C05", 100000), ("C09", 2000), ("C06", 1500), ("C02", 50000), ("C07", 50000), ("C12", 50000)]
ENV = dict(os.environ, CARGO_NET_OFFLINE="true", RSIM_VERIF_DIR=VDIR, RSIM_NO_MINIMISE="1")

def sh(cmd, cwd=None, timeout=900):
    try:
        p = subprocess.run(cmd, shell=True, cwd=cwd, env=ENV, capture_output=True, text=True, timeout=timeout)
        return p.returncode, p.stdout + p.stderr
    except subprocess.TimeoutExpired:
        return 124, "timeout"

def setup():
    if os.path.exists(ROOT):
        shutil.rmtree(ROOT)
    os.makedirs(VDIR)
    sh(f"git -C /repo worktree prune; cp -a /repo {REPO}; rm -rf {REPO}/target {REPO}/.git")
    sh(f"mkdir -p {SIM} && cp -a /verif/sim/src /verif/sim/Cargo.toml /verif/sim/Cargo.lock /verif/sim/.cargo {SIM}/")
    for f in [SIM + "/Cargo.toml", SIM + "/src/scen.rs"]:
        s = open(f).read().replace("/repo/rarena-allocator", REPO + "/rarena-allocator")
        open(f, "w").write(s)
    shutil.copy("/verif/known_findings.jsonl", VDIR + "/known_findings.jsonl")
    rc, out = sh("cargo build --release --offline", cwd=SIM, timeout=1800)
    assert rc == 0, out[-2000:]
    rc, out = sh("cargo test -p rarena-allocator --offline", cwd=REPO, timeout=1800)
    assert rc == 0, out[-2000:]

OPS = [
    (r">=", ">"), (r"(?<![<>=!-])>(?![=>])", ">="), (r"<=", "<"), (r"(?<![<>=!])<(?![=<])", "<="), (r"==", "!="), (r"!=", "=="),
    (r" \+ ", " - "), (r" - ", " + "), (r"\+ 1\b", "+ 0"), (r"- 1\b", "- 0"), (r"&&", "||"), (r"\|\|", "&&"),
    (r"\.min\(", ".max("), (r"\.max\(", ".min("), (r"\btrue\b", "false"), (r"\bfalse\b", "true"),
    (r"Ordering::Acquire", "Ordering::Relaxed"), (r"Ordering::Release", "Ordering::Relaxed"), (r"Ordering::AcqRel", "Ordering::Relaxed"), (r"Ordering::SeqCst", "Ordering::Relaxed"),
    (r"saturating_add", "wrapping_add"), (r"saturating_sub", "wrapping_sub"), (r"SEGMENT_NODE_SIZE", "(SEGMENT_NODE_SIZE - 1)"),
    (r"\bmemory_offset\b", "ptr_offset"), (r"\bmemory_size\b", "ptr_size"), (r"\bptr_offset\b", "memory_offset"), (r"\bdata_offset\b", "ptr_offset"),
]

def candidates():
    out = []
    for f in FILES:
        path = f"/repo/rarena-allocator/src/{f}"
        lines = open(path).read().split("\n")
        in_test = False
        for i, l in enumerate(lines):
            t = l.strip()
            if t.startswith("//") or t.startswith("#[") or t.startswith("///") or "tracing::" in l or "verif" in l or not t:
                continue
            if "#[cfg(test)]" in l:
                in_test = True
            if in_test:
                continue
            if i > 0 and "cfg(feature = \"verif-hooks\")" in lines[i - 1]:
                continue
            # operator replacements
            for k, (pat, rep) in enumerate(OPS):
                for m in re.finditer(pat, l):
                    # skip generics / arrows / lifetimes heuristically
                    ctx = l[max(0, m.start() - 2):m.end() + 2]
                    if "->" in ctx or "=>" in ctx or "::<" in ctx or "'" in ctx:
                        continue
                    nl = l[:m.start()] + rep + l[m.end():]
                    out.append((f, i, l, nl, f"op{k}:{pat}->{rep}"))
            # statement deletion
            if re.match(r"^\s*(self\.|segment_node\.|allocated\.|backoff\.|header\.|memory\.|ptr::|core::ptr::|slot\.|\*)[^;{}]*;\s*$", l) and "let " not in l and "return" not in l:
                out.append((f, i, l, re.match(r"^\s*", l).group(0) + "();", "delete-statement"))
    return out

def main():
    n = int(sys.argv[1])
    seed = int(sys.argv[2]) if len(sys.argv) > 2 else 1
    os.makedirs("/verif/mutation", exist_ok=True)
    res_path = "/verif/mutation/results.jsonl"
    done = set()
    if os.path.exists(res_path):
        for l in open(res_path):
            j = json.loads(l)
            done.add((j["file"], j["line"], j["op"], j["new"]))
    cands = candidates()
    random.Random(seed).shuffle(cands)
    setup()
    count = 0
    for (f, i, old, new, op) in cands:
        if count >= n:
            break
        if (f, i + 1, op, new.strip()) in done:
            continue
        path = f"{REPO}/rarena-allocator/src/{f}"
        orig = open(path).read()
        lines = orig.split("\n")
        if lines[i] != old:
            continue
        lines[i] = new
        open(path, "w").write("\n".join(lines))
        rec = {"file": f, "line": i + 1, "op": op, "old": old.strip(), "new": new.strip(), "status": None, "caught_by": None, "t": 0}
        t0 = time.time()
        try:
            rc, out = sh("cargo build --release --offline", cwd=SIM, timeout=900)
            if rc != 0:
                rec["status"] = "nocompile"
                continue
            rc, out = sh("cargo test -p rarena-allocator --offline 2>&1 | grep -E \"^test result\"", cwd=REPO, timeout=600)
            if "test result: ok. 68 passed" not in out:
                rec["status"] = "killed_by_existing_tests"
                continue
            count += 1
            rec["status"] = "survived"
            for (p, runs) in PROPS:
                rc, out = sh(f"{SIM}/target/release/rsim check {p} --runs {runs} --jobs 8", cwd=SIM, timeout=600)
                if rc == 1 or "VIOLATION" in out:
                    rec["status"] = "caught"
                    rec["caught_by"] = p
                    m = re.search(r"replay=\S*/([^/\s]+)\.json", out)
                    rec["signature_file"] = m.group(1) if m else None
                    break
                if rc not in (0,):
                    rec["status"] = "caught"
                    rec["caught_by"] = p + ":rc=" + str(rc)
                    break
        finally:
            open(path, "w").write(orig)
            rec["t"] = round(time.time() - t0, 1)
            if rec["status"] != "nocompile":
                open(res_path, "a").write(json.dumps(rec) + "\n")
            print(rec["status"], rec.get("caught_by"), f, i + 1, op, "|", rec["old"][:70], "=>", rec["new"][:70], flush=True)
    shutil.rmtree(ROOT, ignore_errors=True)

if __name__ == "__main__":
    main()
