#!/bin/bash
# Determinism self-test: every run is executed three times, in different processes and with
# different worker counts (1, 3 and 16 processes); the per-run digests (trace hash, state hash,
# steps, operations, fault counts, violation signatures) must be identical.
# usage: tools/determinism.sh [runs-per-property (default 2000)] [props...]
cd "$(dirname "$0")/../sim" || exit 2
N="${1:-2000}"; shift || true
PROPS="${*:-C01 C02 C03 C04 C05 C06 C07 C08 C09 C10 C11 C12 C13 C16 C17 C18 C20}"
EXE=./target/release/rsim
T=$(mktemp -d /dev/shm/rsim-det.XXXXXX)
rc=0
for p in $PROPS; do
  n=$N
  case $p in C06|C09) n=$((N/10+16));; esac
  $EXE digest --prop $p --start 0 --stride 1 --count $n | sort -n > $T/a.txt
  : > $T/b.txt; for w in 0 1 2; do $EXE digest --prop $p --start $w --stride 3 --count $(( (n - w + 2) / 3 )) >> $T/b.$w & done; wait; cat $T/b.0 $T/b.1 $T/b.2 | sort -n | head -n $n > $T/b.txt; rm -f $T/b.?
  for w in $(seq 0 15); do $EXE digest --seed ${VERIF_SEED:-1} --prop $p --start $w --stride 16 --count $(( (n - w + 15) / 16 )) > $T/c.$w & done; wait; cat $T/c.[0-9]* | sort -n | head -n $n > $T/c.txt; rm -f $T/c.[0-9]*
  if cmp -s $T/a.txt $T/b.txt && cmp -s $T/a.txt $T/c.txt; then
    echo "DETERMINISTIC $p runs=$n x3 executions (1, 3, 16 processes) distinct_digests=$(cut -d' ' -f2 $T/a.txt | sort -u | wc -l)"
  else
    echo "NONDETERMINISTIC $p: $(diff $T/a.txt $T/b.txt | head -3) $(diff $T/a.txt $T/c.txt | head -3)"; rc=1
  fi
done
rm -rf $T
exit $rc
