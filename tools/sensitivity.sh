#!/bin/bash
# Applies each mutant patch to /repo (never committed), runs the quick check(s) expected to catch it,
# and restores /repo. usage: tools/sensitivity.sh [name-filter]
#   mutants/<name>.patch + mutants/<name>.props (space separated property ids; default: from MUTANTS table)
cd "$(dirname "$0")/.."
# the evidence files belong to the unchanged tree: keep them
EVBAK=$(mktemp -d /dev/shm/evbak.XXXXXX); cp -a evidence/. $EVBAK/ 2>/dev/null
trap 'cp -a $EVBAK/. evidence/ 2>/dev/null; rm -rf $EVBAK' EXIT
declare -A PROPS
while read -r name props; do [ -n "$name" ] && PROPS[$name]="$props"; done < mutants/EXPECT
fail=0
for patch in mutants/*.patch; do
  name=$(basename "$patch" .patch)
  [ -n "${1:-}" ] && [[ "$name" != *"$1"* ]] && continue
  props="${PROPS[$name]:-}"
  [ -z "$props" ] && { echo "SKIP $name (no entry in mutants/EXPECT)"; continue; }
  if ! git -C /repo diff --quiet; then echo "HARNESS-ERROR /repo has uncommitted changes"; exit 2; fi
  if ! git -C /repo apply "$PWD/$patch" 2>/dev/null; then echo "STALE $name (patch does not apply)"; fail=1; continue; fi
  caught=""
  for p in $props; do
    out=$(./check "$p" quick 2>&1); rc=$?
    if [ $rc -eq 1 ]; then caught="$caught $p:$(echo "$out" | grep -m1 -o 'replay=[^ ]*' | sed 's/.*replays.//')"; fi
    if [ $rc -eq 2 ]; then caught="$caught $p:HARNESS-ERROR"; fi
  done
  git -C /repo checkout -- . 
  if [ -n "$caught" ]; then echo "CAUGHT $name by$caught"; else echo "MISSED $name (ran: $props)"; fail=1; fi
done
exit $fail
