#!/bin/bash
# Applies each behaviour-preserving change in benign/<id>/patch.diff to /repo (never committed), runs every quick
# check and expects no VIOLATION; restores /repo. usage: tools/benign_eval.sh [ids...]
cd "$(dirname "$0")/.."
# the evidence files belong to the unchanged tree: keep them
EVBAK=$(mktemp -d /dev/shm/evbak.XXXXXX); cp -a evidence/. $EVBAK/ 2>/dev/null
trap 'cp -a $EVBAK/. evidence/ 2>/dev/null; rm -rf $EVBAK' EXIT
ids="${*:-$(ls benign)}"
for k in $ids; do
  if ! git -C /repo diff --quiet; then echo "HARNESS-ERROR /repo has uncommitted changes"; exit 2; fi
  git -C /repo apply "$PWD/benign/$k/patch.diff" || { echo "STALE $k"; continue; }
  ( cd /repo && CARGO_NET_OFFLINE=true cargo test --workspace --no-fail-fast --offline 2>&1 | grep -E "^test result: .* 68 passed" >/dev/null ) && suite=ok || suite=FAIL
  out=$(tools/run_all.sh quick 2>&1 | grep -v KNOWN)
  git -C /repo checkout -- .
  bad=$(echo "$out" | grep -E "rc=[12]|VIOLATION" | cut -c1-200)
  if [ -z "$bad" ]; then echo "SILENT $k (suite $suite): all $(echo "$out" | grep -c 'rc=0') checks exit 0"; else echo "ALARM $k (suite $suite):"; echo "$bad"; fi
done
