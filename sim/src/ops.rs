//! Operations of generated histories and their JSON form (replay files).

use crate::arena::AllocKind;
use serde_json::{json, Value};

#[derive(Clone, Copy, Debug, PartialEq, Eq)]
pub enum Pos {
    Start(u32),
    End(u32),
    Current(i64),
}

#[derive(Clone, Debug, PartialEq, Eq)]
pub enum Op {
    /// `arena` selects the arena value (original or clone) to call, modulo the live ones.
    Alloc { kind: AllocKind, ty: u8, size: u32, owned: bool, arena: usize },
    /// drop live handle `h` (modulo the number of live handles)
    Drop { h: usize },
    /// detach, then drop: the range stays allocated ("kept")
    DetachDrop { h: usize },
    /// explicit `dealloc(buffer_offset, buffer_capacity)` of kept range `k`
    Dealloc { k: usize },
    /// overwrite the bytes of live handle `h` with a fresh pattern, through the handle
    Rewrite { h: usize },
    DiscardFreelist,
    SetMinSeg(u32),
    IncDiscarded(u32),
    Rewind(Pos),
    Clear,
    CloneArena { from: usize },
    DropArena { k: usize },
    /// 0 flush, 1 flush_async, 2 flush_range, 3 flush_header, 4 flush_header_and_range, 5 mlock a page, 6 munlock it
    Flush(u8),
    /// close everything and reopen the file. mode: 0 map_mut, 1 map_copy, 2 map, 3 map_copy_read_only;
    /// cap: 0 same, 1 larger, 2 absent
    Reopen { mode: u8, cap: u8 },
    Truncate(u32),
    /// fill fresh space with 1..=8 byte allocations (kept), used to force the slow path
    Fill,
}

fn kind_str(k: AllocKind) -> &'static str {
    match k {
        AllocKind::Bytes => "bytes",
        AllocKind::Aligned => "aligned",
        AllocKind::Typed => "typed",
    }
}

impl Op {
    pub fn to_json(&self) -> Value {
        match self {
            Op::Alloc { kind, ty, size, owned, arena } => json!({"op": "alloc", "kind": kind_str(*kind), "ty": ty, "size": size, "owned": owned, "arena": arena}),
            Op::Drop { h } => json!({"op": "drop", "h": h}),
            Op::DetachDrop { h } => json!({"op": "detach_drop", "h": h}),
            Op::Dealloc { k } => json!({"op": "dealloc", "k": k}),
            Op::Rewrite { h } => json!({"op": "rewrite", "h": h}),
            Op::DiscardFreelist => json!({"op": "discard_freelist"}),
            Op::SetMinSeg(n) => json!({"op": "set_min_seg", "n": n}),
            Op::IncDiscarded(n) => json!({"op": "inc_discarded", "n": n}),
            Op::Rewind(Pos::Start(n)) => json!({"op": "rewind", "pos": "start", "n": n}),
            Op::Rewind(Pos::End(n)) => json!({"op": "rewind", "pos": "end", "n": n}),
            Op::Rewind(Pos::Current(n)) => json!({"op": "rewind", "pos": "current", "n": n}),
            Op::Clear => json!({"op": "clear"}),
            Op::CloneArena { from } => json!({"op": "clone_arena", "from": from}),
            Op::DropArena { k } => json!({"op": "drop_arena", "k": k}),
            Op::Flush(n) => json!({"op": "flush", "n": n}),
            Op::Reopen { mode, cap } => json!({"op": "reopen", "mode": mode, "cap": cap}),
            Op::Truncate(n) => json!({"op": "truncate", "n": n}),
            Op::Fill => json!({"op": "fill"}),
        }
    }

    pub fn from_json(v: &Value) -> Option<Op> {
        let u = |k: &str| v.get(k).and_then(|x| x.as_u64());
        Some(match v.get("op")?.as_str()? {
            "alloc" => Op::Alloc {
                kind: match v.get("kind")?.as_str()? {
                    "bytes" => AllocKind::Bytes,
                    "aligned" => AllocKind::Aligned,
                    _ => AllocKind::Typed,
                },
                ty: u("ty")? as u8,
                size: u("size")? as u32,
                owned: v.get("owned")?.as_bool()?,
                arena: u("arena")? as usize,
            },
            "drop" => Op::Drop { h: u("h")? as usize },
            "detach_drop" => Op::DetachDrop { h: u("h")? as usize },
            "dealloc" => Op::Dealloc { k: u("k")? as usize },
            "rewrite" => Op::Rewrite { h: u("h")? as usize },
            "discard_freelist" => Op::DiscardFreelist,
            "set_min_seg" => Op::SetMinSeg(u("n")? as u32),
            "inc_discarded" => Op::IncDiscarded(u("n")? as u32),
            "rewind" => {
                let n = v.get("n")?;
                match v.get("pos")?.as_str()? {
                    "start" => Op::Rewind(Pos::Start(n.as_u64()? as u32)),
                    "end" => Op::Rewind(Pos::End(n.as_u64()? as u32)),
                    _ => Op::Rewind(Pos::Current(n.as_i64()?)),
                }
            }
            "clear" => Op::Clear,
            "clone_arena" => Op::CloneArena { from: u("from")? as usize },
            "drop_arena" => Op::DropArena { k: u("k")? as usize },
            "flush" => Op::Flush(u("n")? as u8),
            "reopen" => Op::Reopen { mode: u("mode")? as u8, cap: u("cap")? as u8 },
            "truncate" => Op::Truncate(u("n")? as u32),
            "fill" => Op::Fill,
            _ => return None,
        })
    }
}

pub fn ops_to_json(ops: &[Op]) -> Value {
    Value::Array(ops.iter().map(|o| o.to_json()).collect())
}

pub fn ops_from_json(v: &Value) -> Option<Vec<Op>> {
    v.as_array()?.iter().map(Op::from_json).collect()
}
