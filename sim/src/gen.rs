//! State-aware generation of single-client histories (one profile per property).

use crate::arena::{AllocKind, Backend, Cfg, Snap};
use crate::ops::{Op, Pos};
use crate::rng::Rng;
use crate::types::{ty_info, NTYPES};

#[derive(Clone, Debug)]
pub struct View {
    pub cap: u32,
    pub allocated: u32,
    pub data_offset: u32,
    pub nodes: Vec<(u32, u32, u32)>,
    pub live: usize,
    pub kept: usize,
    pub arenas: usize,
    pub ro: bool,
    pub min_seg: u32,
    pub top_live: Option<usize>,
}

impl View {
    pub fn from_snap(s: &Snap, cap: usize, data_offset: usize, live: usize, kept: usize, arenas: usize, ro: bool, top_live: Option<usize>) -> View {
        View { cap: cap as u32, allocated: s.allocated, data_offset: data_offset as u32, nodes: s.nodes.clone(), live, kept, arenas, ro, min_seg: s.min_seg, top_live }
    }
    pub fn remaining(&self) -> u32 {
        self.cap.saturating_sub(self.allocated)
    }
}

#[derive(Clone, Copy, Debug, PartialEq, Eq)]
pub enum Sizes {
    Normal,
    /// boundary-dense over the whole u32 range (C04)
    Boundary,
    /// 1-byte steps and odd sizes (C03)
    Residues,
}

// weight indices
pub const W_BYTES: usize = 0;
pub const W_ALIGNED: usize = 1;
pub const W_TYPED: usize = 2;
pub const W_DROP: usize = 3;
pub const W_DETACH: usize = 4;
pub const W_DEALLOC: usize = 5;
pub const W_REWRITE: usize = 6;
pub const W_DISCARD: usize = 7;
pub const W_SETMIN: usize = 8;
pub const W_INCDISC: usize = 9;
pub const W_REWIND: usize = 10;
pub const W_CLEAR: usize = 11;
pub const W_CLONE: usize = 12;
pub const W_DROPARENA: usize = 13;
pub const W_FLUSH: usize = 14;
pub const W_REOPEN: usize = 15;
pub const W_TRUNC: usize = 16;
pub const W_FILL: usize = 17;
pub const NW: usize = 18;

#[derive(Clone, Debug)]
pub struct Profile {
    pub prop: &'static str,
    pub sync: Option<bool>,
    pub backends: Vec<Backend>,
    pub freelists: Vec<u8>,
    pub w: [u32; NW],
    pub sizes: Sizes,
    pub owned_pct: u64,
    pub spurious: bool,
    pub max_ops: u64,
    /// reopen modes allowed (bit mask over 0..4)
    pub reopen_modes: u8,
}

const ALL_BACKENDS: [Backend; 4] = [Backend::Vec, Backend::Vec, Backend::Anon, Backend::File];

pub fn profile(prop: &str) -> Profile {
    let mut w = [0u32; NW];
    // the op set of C01
    w[W_BYTES] = 30;
    w[W_ALIGNED] = 15;
    w[W_TYPED] = 20;
    w[W_DROP] = 35;
    w[W_DETACH] = 8;
    w[W_DEALLOC] = 8;
    w[W_REWRITE] = 4;
    w[W_FILL] = 3;
    let mut p = Profile {
        prop: "C01",
        sync: None,
        backends: ALL_BACKENDS.to_vec(),
        freelists: vec![0, 1, 1, 2, 2],
        w,
        sizes: Sizes::Normal,
        owned_pct: 30,
        spurious: true,
        max_ops: 120,
        reopen_modes: 0,
    };
    // every profile also carries a little of the rest of the API: a property that holds must hold whatever else
    // the client calls in between (cheap cross-feature coverage; the focus weights follow below)
    p.w[W_SETMIN] = 1;
    p.w[W_DISCARD] = 1;
    p.w[W_INCDISC] = 1;
    p.w[W_CLONE] = 1;
    p.w[W_DROPARENA] = 1;
    p.w[W_CLEAR] = 1;
    p.w[W_REWIND] = 1;
    p.w[W_REOPEN] = 1;
    p.w[W_TRUNC] = 1;
    p.w[W_FLUSH] = 1;
    p.reopen_modes = 0b1111;
    match prop {
        "C01" => {}
        "C03" => {
            p.prop = "C03";
            p.sizes = Sizes::Residues;
            p.w[W_TYPED] = 35;
            p.w[W_ALIGNED] = 25;
            p.w[W_FILL] = 6;
        }
        "C04" => {
            p.prop = "C04";
            p.sizes = Sizes::Boundary;
            p.w[W_DISCARD] = 1;
            p.w[W_SETMIN] = 2;
            p.w[W_REOPEN] = 2;
        }
        "C08" => {
            p.prop = "C08";
            p.w[W_BYTES] = 45;
            p.w[W_REWIND] = 4;
            p.w[W_DISCARD] = 2;
            p.w[W_REOPEN] = 3;
            p.w[W_REWRITE] = 10;
        }
        "C10" => {
            p.prop = "C10";
            p.freelists = vec![0, 1, 1, 1, 2, 2, 2];
            p.w[W_SETMIN] = 4;
            p.w[W_DISCARD] = 2;
            p.w[W_FILL] = 6;
        }
        "C13" => {
            p.prop = "C13";
            p.owned_pct = 55;
            p.w[W_CLONE] = 8;
            p.w[W_DROPARENA] = 8;
            p.w[W_DETACH] = 14;
            p.w[W_SETMIN] = 2;
            // the backing store must also outlive calls that replace or fail to replace it
            p.w[W_TRUNC] = 3;
            p.w[W_REOPEN] = 3;
        }
        "C16" => {
            p.prop = "C16";
            p.w[W_TRUNC] = 3;
            p.w[W_CLEAR] = 2;
            p.w[W_REOPEN] = 2;
            p.w[W_SETMIN] = 3;
            p.w[W_DISCARD] = 2;
            p.w[W_INCDISC] = 2;
        }
        "C17" => {
            p.prop = "C17";
            p.w[W_REWIND] = 14;
            p.w[W_CLEAR] = 5;
            p.w[W_FLUSH] = 4;
            p.w[W_SETMIN] = 3;
            p.w[W_DISCARD] = 2;
            p.w[W_INCDISC] = 2;
        }
        "C18" => {
            p.prop = "C18";
            p.sync = Some(false);
            p.w[W_TRUNC] = 10;
            p.w[W_SETMIN] = 2;
            p.w[W_REOPEN] = 1;
            // owned handles and clones stay alive across truncate(&mut self) in a legal program
            p.owned_pct = 15;
            p.w[W_CLONE] = 2;
            p.w[W_DROPARENA] = 2;
        }
        "C20" => {
            p.prop = "C20";
            p.w[W_DISCARD] = 7;
            p.w[W_INCDISC] = 6;
            p.w[W_SETMIN] = 6;
            p.w[W_FILL] = 5;
            p.w[W_REOPEN] = 1;
        }
        "C11" => {
            p.prop = "C11";
            p.w[W_DISCARD] = 4;
            p.w[W_INCDISC] = 3;
            p.w[W_SETMIN] = 4;
            p.w[W_REWIND] = 4;
            p.w[W_CLEAR] = 2;
            p.w[W_FILL] = 5;
            // the comparison needs both flavours to offer the call (truncate is unsync-only) and one session
            p.w[W_TRUNC] = 0;
            p.w[W_REOPEN] = 0;
            p.spurious = false;
        }
        "C05" => {
            p.prop = "C05";
            p.backends = vec![Backend::File];
            p.w[W_REOPEN] = 12;
            p.w[W_FLUSH] = 5;
            p.w[W_SETMIN] = 3;
            p.w[W_DISCARD] = 2;
            p.w[W_INCDISC] = 2;
            p.w[W_FILL] = 5;
        }
        "C06" => {
            p.prop = "C06";
            p.w[W_CLEAR] = 2;
            // rewind: the caller gives up what lies above the target - no obligations inside the call, but the
            // cursor of every crash image has to be in range
            p.w[W_REWIND] = 2;
            p.w[W_CLONE] = 0;
            p.w[W_DROPARENA] = 0;
            // truncate (unsync) and close + reopen: in a copy-on-write / read-only session the crash image is the
            // file itself, which must keep what the last writable session left
            p.w[W_TRUNC] = 2;
            p.w[W_REOPEN] = 2;
            p.backends = vec![Backend::File];
            p.w[W_SETMIN] = 2;
            p.w[W_DISCARD] = 3;
            p.w[W_FILL] = 6;
            p.max_ops = 40;
            p.spurious = false;
        }
        _ => {}
    }
    p
}

fn normal_size(rng: &mut Rng, v: &View) -> u32 {
    let rem = v.remaining();
    match rng.below(20) {
        0 => 0,
        1..=8 => rng.range(1, 24) as u32,
        9..=13 => rng.range(8, 72) as u32,
        14 => rem,
        15 => rem.saturating_sub(rng.range(0, 9) as u32),
        16 => {
            if let Some(n) = v.nodes.get(rng.below(v.nodes.len().max(1) as u64) as usize) {
                n.1.saturating_sub(rng.range(0, 17) as u32).max(1)
            } else {
                rng.range(1, 64) as u32
            }
        }
        17 => (v.cap / 4).max(1),
        18 => rng.range(1, (v.cap as u64 / 2).max(2)) as u32,
        _ => rng.range(40, 200) as u32,
    }
}

fn boundary_size(rng: &mut Rng, v: &View) -> u32 {
    let rem = v.remaining();
    let d = rng.range(0, 3) as u32;
    let big = match rng.below(16) {
        0 => 0,
        1 => 1,
        2 => rem.wrapping_add(d),
        3 => rem.wrapping_sub(d),
        4 => v.cap.wrapping_add(d),
        5 => v.cap.wrapping_sub(d),
        6 => (1u32 << 31).wrapping_add(d),
        7 => (1u32 << 31).wrapping_sub(d),
        8 => (u32::MAX - v.allocated).wrapping_add(d),
        9 => (u32::MAX - v.allocated).wrapping_sub(d + rng.range(0, 64) as u32),
        10 => u32::MAX - rng.range(0, 80) as u32,
        11 => rng.next_u64() as u32,
        12 => {
            if let Some(n) = v.nodes.first() {
                n.1.wrapping_add(d).wrapping_sub(1)
            } else {
                rng.range(1, 64) as u32
            }
        }
        _ => return normal_size(rng, v),
    };
    big
}

fn residue_size(rng: &mut Rng, v: &View) -> u32 {
    match rng.below(10) {
        0..=3 => rng.range(1, 3) as u32,
        4..=6 => *rng.pick(&[3u32, 5, 7, 9, 11, 13, 15, 17, 19, 23, 31, 33]),
        7 => 0,
        // "all n": the boundary values of the C04 generator (n within a few bytes of u32::MAX, of the remaining
        // space, of a segment) also reach the capacity / alignment oracle — a request whose padded size wraps must
        // not come back as a short handle from a recycled segment
        8 => boundary_size(rng, v),
        _ => normal_size(rng, v),
    }
}

pub fn gen_cfg(rng: &mut Rng, p: &Profile) -> Cfg {
    let mut c = Cfg::random(rng, p.sync, &p.backends, &p.freelists);
    if p.prop == "C03" && rng.chance(1, 2) {
        c.max_align = *rng.pick(&[16usize, 64]);
    }
    // clear() / rewind over several pages of a real mapping (page locks, madvise-style shortcuts)
    if p.prop == "C17" && rng.chance(1, 8) {
        c.cap = rng.range(4096, 20000) as u32;
        if c.backend == Backend::Vec && rng.chance(2, 3) {
            c.backend = Backend::Anon;
        }
    }
    // a file-backed arena always uses the unified layout, whatever `with_unify` says: both values are generated.
    // Single-client file histories also map at page-multiple offsets inside the file.
    if c.backend == Backend::File && matches!(p.prop, "C01" | "C03" | "C04" | "C05" | "C08" | "C10" | "C13" | "C16" | "C17" | "C18" | "C20") {
        c.offset = *rng.pick(&[0u64, 0, 0, 4096, 8192]);
    }
    c
}

pub fn history_len(rng: &mut Rng, p: &Profile) -> u64 {
    match rng.below(10) {
        0..=2 => rng.range(2, 10),
        3..=6 => rng.range(8, 40),
        _ => rng.range(30, p.max_ops.max(31)),
    }
}

/// Draws the next operation for the current state.
pub fn next_op(rng: &mut Rng, p: &Profile, cfg: &Cfg, v: &View) -> Op {
    let mut w = p.w;
    if v.live == 0 {
        w[W_DROP] = 0;
        w[W_DETACH] = 0;
        w[W_REWRITE] = 0;
    }
    if v.kept == 0 {
        w[W_DEALLOC] = 0;
    }
    if v.arenas <= 1 {
        w[W_DROPARENA] = 0;
    }
    if cfg.backend != Backend::File {
        w[W_REOPEN] = 0;
    }
    if cfg.backend == Backend::Vec {
        w[W_FLUSH] = 0;
    }
    if cfg.sync {
        w[W_TRUNC] = 0;
    }
    if v.remaining() == 0 {
        w[W_FILL] = 0;
    }
    if v.ro {
        // a read-only session: only allocation attempts, discard, reopen
        for i in [W_DROP, W_DETACH, W_DEALLOC, W_REWRITE, W_SETMIN, W_INCDISC, W_REWIND, W_CLEAR, W_FILL, W_TRUNC] {
            w[i] = 0;
        }
        w[W_REOPEN] = w[W_REOPEN].max(1) * 8;
    }
    // when the arena is full, favour releases so that the list gets exercised
    if v.remaining() < 16 && v.live > 0 {
        w[W_DROP] *= 2;
    }
    let size = |rng: &mut Rng| match p.sizes {
        // C01: "in bounds" is decided where the arena is nearly full; one request in six is a boundary value
        // (remaining / capacity / segment size +- a few bytes) so that those states are common in its histories too
        Sizes::Normal if p.prop == "C01" && rng.chance(1, 6) => boundary_size(rng, v),
        Sizes::Normal => normal_size(rng, v),
        Sizes::Boundary => boundary_size(rng, v),
        Sizes::Residues => residue_size(rng, v),
    };
    let owned = |rng: &mut Rng| rng.below(100) < p.owned_pct;
    let arena = rng.below(8) as usize;
    match rng.weighted(&w) {
        W_BYTES => Op::Alloc { kind: AllocKind::Bytes, ty: 0, size: size(rng), owned: owned(rng), arena },
        W_ALIGNED => {
            let ty = rng.below(NTYPES as u64) as u8;
            let ti = ty_info(ty);
            let mut s = size(rng);
            if p.sizes != Sizes::Boundary && rng.chance(1, 2) {
                s = s.saturating_sub(ti.size as u32);
            }
            Op::Alloc { kind: AllocKind::Aligned, ty, size: s, owned: owned(rng), arena }
        }
        W_TYPED => Op::Alloc { kind: AllocKind::Typed, ty: rng.below(NTYPES as u64) as u8, size: 0, owned: owned(rng), arena },
        W_DROP => {
            // bias towards the top allocation sometimes (release back to fresh space)
            if let (true, Some(t)) = (rng.chance(1, 5), v.top_live) {
                Op::Drop { h: t }
            } else {
                Op::Drop { h: rng.below(64) as usize }
            }
        }
        W_DETACH => Op::DetachDrop { h: rng.below(64) as usize },
        W_DEALLOC => Op::Dealloc { k: rng.below(64) as usize },
        W_REWRITE => Op::Rewrite { h: rng.below(64) as usize },
        W_DISCARD => Op::DiscardFreelist,
        W_SETMIN => Op::SetMinSeg(*rng.pick(&[0u32, 1, 4, 8, 12, 20, 33, 48, 100, u32::MAX])),
        W_INCDISC => Op::IncDiscarded(rng.range(0, 300) as u32),
        W_REWIND => Op::Rewind(gen_pos(rng, v)),
        W_CLEAR => Op::Clear,
        W_CLONE => Op::CloneArena { from: arena },
        W_DROPARENA => Op::DropArena { k: arena },
        W_FLUSH => Op::Flush(rng.below(7) as u8),
        W_REOPEN => {
            let modes: Vec<u8> = (0..4).filter(|m| p.reopen_modes & (1 << m) != 0).collect();
            if modes.is_empty() {
                Op::Flush(0)
            } else {
                Op::Reopen { mode: *rng.pick(&modes), cap: rng.below(4) as u8 }
            }
        }
        W_TRUNC => {
            let c = v.cap as u64;
            let a = v.allocated as u64;
            let n = match rng.below(12) {
                0 => 0,
                1 => a,
                2 => a.saturating_sub(1),
                3 => a + 1,
                4 => c,
                5 => c + 1,
                6 => c.saturating_sub(1),
                7 => rng.range(0, 4 * c),
                8 => 4 * c,
                9 => a + rng.range(0, 64),
                10 => rng.range(0, a.max(1)),
                _ => rng.range(c, 2 * c),
            };
            Op::Truncate(n as u32)
        }
        _ => Op::Fill,
    }
}

pub fn gen_pos(rng: &mut Rng, v: &View) -> Pos {
    let a = v.allocated as i64;
    let c = v.cap as i64;
    let d0 = v.data_offset as i64;
    let small = rng.range(0, 3) as i64;
    match rng.below(24) {
        0 => Pos::Start(0),
        1 => Pos::Start(d0 as u32),
        2 => Pos::Start((d0 + small) as u32),
        3 => Pos::Start((d0 - small).max(0) as u32),
        4 => Pos::Start(a as u32),
        5 => Pos::Start(c as u32),
        6 => Pos::Start((c + small) as u32),
        7 => Pos::Start(u32::MAX - small as u32),
        8 => Pos::Start(rng.range(0, c as u64 + 8) as u32),
        9 => Pos::End(0),
        10 => Pos::End(small as u32),
        11 => Pos::End((c - a).max(0) as u32),
        12 => Pos::End((c - d0).max(0) as u32 + small as u32),
        13 => Pos::End(c as u32 + small as u32),
        14 => Pos::End(u32::MAX - small as u32),
        15 => Pos::End(rng.range(0, c as u64 + 8) as u32),
        16 => Pos::Current(0),
        17 => Pos::Current(-a),
        18 => Pos::Current(-a + small),
        19 => Pos::Current(-a - small),
        20 => Pos::Current(c - a + small - 1),
        21 => Pos::Current(*rng.pick(&[i64::MAX, i64::MIN, i64::MAX - 1, i64::MIN + 1, u32::MAX as i64, -(u32::MAX as i64)])),
        22 => Pos::Current(d0 - a + small - 1),
        _ => Pos::Current(rng.range(0, 2 * c as u64) as i64 - c),
    }
}
