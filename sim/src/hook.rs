//! Glue between rarena's `verif` callbacks and the simulator.
//!
//! A simulated thread is in one of three modes:
//!  * `Off`   – no hook installed, rarena runs untouched (harness set-up code);
//!  * `St`    – single-thread *counting* mode: numbers the atomic steps of each
//!              API call, enforces a per-call step budget, checks addresses,
//!              injects spurious weak-CAS failures, records trace hash / probes,
//!              and takes crash snapshots;
//!  * `Mt(t)` – scheduled mode, handled by `crate::mt`.

use crate::rng::{hash_add, Rng};
use rarena_allocator::verif::{self, Access, Hook, Kind};
use std::cell::{Cell, RefCell};
use std::collections::BTreeMap;

pub struct SimHook;
pub static SIM_HOOK: SimHook = SimHook;

#[derive(Clone, Copy, PartialEq, Eq, Debug)]
pub enum Mode {
    Off,
    St,
    Mt(usize),
}

thread_local! {
    static MODE: Cell<Mode> = const { Cell::new(Mode::Off) };
    pub static ST: RefCell<StCtx> = RefCell::new(StCtx::default());
}

pub fn set_mode(m: Mode) {
    MODE.with(|c| c.set(m));
    match m {
        Mode::Off => verif::set_hook(None),
        _ => verif::set_hook(Some(&SIM_HOOK)),
    }
}

pub fn mode() -> Mode {
    MODE.with(|c| c.get())
}

/// Payload of the sentinel panic used to unwind out of rarena when a run is cut.
#[derive(Debug, Clone)]
pub struct SimAbort {
    pub class: &'static str,
    pub detail: String,
}

pub fn abort_run(class: &'static str, detail: String) -> ! {
    std::panic::resume_unwind(Box::new(SimAbort { class, detail }))
}

#[derive(Clone, Copy, Debug, PartialEq, Eq)]
pub enum Region {
    Arena,
    MemoryBox,
}

#[derive(Default)]
pub struct StCtx {
    /// allowed address ranges (start, len, kind)
    pub regions: Vec<(usize, usize, Region)>,
    pub step_in_call: u64,
    pub call_budget: u64,
    pub total_steps: u64,
    pub trace_hash: u64,
    /// (line, kind, outcome) -> count
    pub probes: BTreeMap<(u32, u8, u8), u64>,
    pub spurious: Option<(Rng, u64, u64)>,
    pub spurious_fired: u64,
    /// crash snapshots: (pointer, len) of the arena memory to copy at every step
    pub snap_src: Option<(usize, usize)>,
    pub snaps: Vec<(u64, Vec<u8>, (u32, u8, u8), Option<u32>)>,
    pub last_access: (u32, u8, u8),
    /// line of a removal-mark CAS (size field set to 0) that is neither unlinked nor taken back yet
    pub outstanding_mark: Option<u32>,
    pub snap_every: u64,
    /// plain writes by the arena observed since last cleared: (addr, len)
    pub plain: Vec<(usize, usize)>,
    pub teardowns: u64,
    pub max_call_steps: u64,
}

impl StCtx {
    pub fn reset(&mut self) {
        *self = StCtx::default();
        self.call_budget = 200_000;
    }
    pub fn begin_call(&mut self) {
        self.step_in_call = 0;
        self.last_access = (0, 0, 0);
        self.outstanding_mark = None;
        self.plain.clear();
    }
    fn allowed(&self, addr: usize, width: usize) -> bool {
        self.regions.iter().any(|(s, l, _)| addr >= *s && addr + width <= *s + *l)
    }
    fn norm(&self, addr: usize) -> u64 {
        for (i, (s, l, _)) in self.regions.iter().enumerate() {
            if addr >= *s && addr < *s + *l {
                return ((i as u64) << 48) | (addr - *s) as u64;
            }
        }
        u64::MAX
    }
}

pub fn kind_id(k: Kind) -> u8 {
    match k {
        Kind::Load => 0,
        Kind::Store => 1,
        Kind::Cas => 2,
        Kind::CasWeak => 3,
        Kind::FetchAdd => 4,
        Kind::FetchSub => 5,
    }
}

pub fn kind_name(k: u8) -> &'static str {
    ["load", "store", "cas", "cas_weak", "fetch_add", "fetch_sub"][k as usize % 6]
}

impl Hook for SimHook {
    fn before(&self, a: &Access) -> bool {
        // destructors running while a cut run unwinds must not re-enter the simulator
        if std::thread::panicking() {
            return false;
        }
        match mode() {
            Mode::Off => false,
            Mode::St => ST.with(|st| {
                let mut st = st.borrow_mut();
                if !st.regions.is_empty() && a.width != 1 && (!st.allowed(a.addr, a.width as usize) || a.addr % a.width as usize != 0) {
                    let d = format!("atomic {:?} at {}:{} on address outside arena/header (or misaligned) [{}]", a.kind, short(a.file), a.line,
                        if std::env::var("RSIM_DEBUG").is_ok() { format!("addr={:#x} regions={:x?}", a.addr, st.regions) } else { String::new() });
                    drop(st);
                    abort_run("wild_access", d);
                }
                st.step_in_call += 1;
                st.total_steps += 1;
                if st.step_in_call > st.max_call_steps {
                    st.max_call_steps = st.step_in_call;
                }
                if st.step_in_call > st.call_budget {
                    let d = format!("call exceeded {} atomic steps, spinning at {}:{}", st.call_budget, short(a.file), a.line);
                    drop(st);
                    abort_run("nontermination", d);
                }
                if let Some((p, l)) = st.snap_src {
                    let every = st.snap_every.max(1);
                    if st.total_steps % every == 0 {
                        let bytes = unsafe { std::slice::from_raw_parts(p as *const u8, l) }.to_vec();
                        let step = st.total_steps;
                        let la = st.last_access;
                        let om = st.outstanding_mark;
                        st.snaps.push((step, bytes, la, om));
                    }
                }
                if a.kind == Kind::CasWeak {
                    if let Some((rng, num, den)) = st.spurious.as_mut() {
                        if rng.chance(*num, *den) {
                            st.spurious_fired += 1;
                            return true;
                        }
                    }
                }
                false
            }),
            Mode::Mt(t) => crate::mt::before(t, a),
        }
    }

    fn after(&self, a: &Access) {
        if std::thread::panicking() {
            return;
        }
        match mode() {
            Mode::Off => {}
            Mode::St => ST.with(|st| {
                let mut st = st.borrow_mut();
                let outcome = if a.spurious { 2 } else if a.success { 1 } else { 0 };
                let n = st.norm(a.addr);
                st.trace_hash = hash_add(hash_add(st.trace_hash, n), ((a.line as u64) << 8) | ((kind_id(a.kind) as u64) << 2) | outcome as u64);
                *st.probes.entry((a.line, kind_id(a.kind), outcome)).or_insert(0) += 1;
                st.last_access = (a.line, kind_id(a.kind), outcome);
                if a.width == 8 && a.success && matches!(a.kind, Kind::Cas | Kind::CasWeak) {
                    let is_mark = (a.operand >> 32) == 0 && (a.expected >> 32) != 0;
                    st.outstanding_mark = if is_mark { Some(a.line) } else { None };
                }
            }),
            Mode::Mt(t) => crate::mt::after(t, a),
        }
    }

    fn plain_write(&self, addr: usize, len: usize, what: &'static str) {
        if std::thread::panicking() {
            return;
        }
        match mode() {
            Mode::Off => {}
            Mode::St => ST.with(|st| {
                let mut st = st.borrow_mut();
                if len > 0 && !st.regions.is_empty() {
                    let ok = st.regions.iter().any(|(s, l, k)| *k == Region::Arena && addr >= *s && addr.checked_add(len).map(|e| e <= *s + *l).unwrap_or(false));
                    if !ok {
                        let d = format!("{} would write {} bytes outside the arena buffer", what, len);
                        drop(st);
                        abort_run("wild_write", d);
                    }
                }
                st.plain.push((addr, len));
            }),
            Mode::Mt(t) => crate::mt::plain_write(t, addr, len, what),
        }
    }

    fn teardown(&self, addr: usize, len: usize) {
        if std::thread::panicking() {
            return;
        }
        match mode() {
            Mode::Off => {}
            Mode::St => ST.with(|st| st.borrow_mut().teardowns += 1),
            Mode::Mt(t) => crate::mt::teardown(t, addr, len),
        }
    }
}

pub fn short(file: &str) -> &str {
    file.rsplit('/').next().unwrap_or(file)
}

/// Maps a source line of sync.rs to the enclosing `fn` name (scanned from /repo at start-up).
pub struct LineMap {
    fns: Vec<(u32, String)>,
}

impl LineMap {
    pub fn load(path: &str) -> LineMap {
        let mut fns = Vec::new();
        if let Ok(src) = std::fs::read_to_string(path) {
            for (i, l) in src.lines().enumerate() {
                let t = l.trim_start();
                if t.starts_with("//") {
                    continue;
                }
                if let Some(pos) = t.find("fn ") {
                    let before = &t[..pos];
                    if before.is_empty() || before.ends_with(' ') {
                        let rest = &t[pos + 3..];
                        let name: String = rest.chars().take_while(|c| c.is_alphanumeric() || *c == '_').collect();
                        if !name.is_empty() && l.starts_with("  ") && !l.starts_with("      ") || l.starts_with("fn ") {
                            fns.push((i as u32 + 1, name));
                        }
                    }
                }
            }
        }
        LineMap { fns }
    }
    pub fn func(&self, line: u32) -> &str {
        let mut best = "?";
        for (l, n) in &self.fns {
            if *l <= line {
                best = n;
            } else {
                break;
            }
        }
        best
    }
}
