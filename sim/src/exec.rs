//! Single-client history executor with the shadow store and the per-step oracles.
//!
//! One executor drives one arena (plus its clones and handles) through a
//! history of `Op`s. After every step it evaluates the oracles of all
//! single-thread properties against (a) the shadow store of live ranges and
//! (b) free-list / header snapshots taken before and after the call.

use crate::arena::*;
use crate::hook::{self, Mode, Region, SimAbort, ST};
use crate::ops::{Op, Pos};
use crate::types::{take_drops, ty_info, AnyHandle, HBox, TY_DROP};
use rarena_allocator::{Allocator, ArenaPosition, Error};
use serde_json::{json, Value};
use std::panic::{catch_unwind, AssertUnwindSafe};
use std::path::PathBuf;

#[derive(Clone, Debug)]
pub struct Violation {
    pub prop: &'static str,
    pub class: &'static str,
    pub detail: String,
    pub op: usize,
}

impl Violation {
    pub fn to_json(&self) -> Value {
        json!({"property": self.prop, "class": self.class, "detail": self.detail, "op_index": self.op})
    }
    /// Structural signature used for known-finding matching and minimisation.
    pub fn signature(&self) -> String {
        // a leading "[tag]" of the detail names the call site / root cause and is part of the signature
        match self.detail.strip_prefix('[').and_then(|r| r.split_once(']')) {
            Some((tag, _)) if !tag.is_empty() => format!("{}|{}|{}", self.prop, self.class, tag),
            _ => format!("{}|{}", self.prop, self.class),
        }
    }
}

#[derive(Clone, Debug)]
pub struct Range {
    pub id: u64,
    pub off: usize,
    pub cap: usize,
    pub boff: usize,
    pub bcap: usize,
    pub bytes: Vec<u8>,
    pub kind: AllocKind,
    pub ty: u8,
    pub owned: bool,
    /// 0 = embeds no arena clone, 1 = embeds one, 2 = may or may not (zero-size owned bytes)
    pub embeds: u8,
    pub drop_id: Option<u64>,
}

pub struct LiveH {
    pub h: HBox,
    pub arena_idx: Option<usize>,
    pub r: Range,
}

/// Observation tuple of one step (compared between executors by the differential checks).
#[derive(Clone, Debug, PartialEq, Eq, Default)]
pub struct Obs {
    pub result: String,
    pub meta: Option<(usize, usize, usize, usize)>,
    pub ret: Option<u64>,
    pub allocated: u32,
    pub discarded: u32,
    pub min_seg: u32,
    pub remaining: usize,
    pub capacity: usize,
    pub nodes: Vec<(u32, u32, u32)>,
    pub refs: usize,
}

impl Obs {
    pub fn to_json(&self) -> Value {
        json!({"result": self.result, "meta": self.meta.map(|m| vec![m.0, m.1, m.2, m.3]), "ret": self.ret,
               "allocated": self.allocated, "discarded": self.discarded, "min_seg": self.min_seg, "remaining": self.remaining,
               "capacity": self.capacity, "refs": self.refs,
               "nodes": self.nodes.iter().map(|n| json!([n.0, n.1, n.2])).collect::<Vec<_>>()})
    }
}

#[derive(Default, Clone, Debug)]
pub struct ExecStats {
    pub ops: u64,
    pub allocs_ok: u64,
    pub allocs_err: u64,
    pub slow_allocs: u64,
    pub split_allocs: u64,
    pub typed_slow: u64,
    pub releases: u64,
    pub releases_to_list: u64,
    pub releases_top: u64,
    pub releases_discarded: u64,
    pub zero_size: u64,
    pub reopens: u64,
    pub exhaustion: u64,
    pub max_nodes: u64,
    pub max_live: u64,
    pub rewinds: u64,
    pub clears: u64,
    pub truncates: u64,
    pub clones: u64,
    pub state_hash: u64,
}

pub struct ExecOpts {
    /// pre-fill reserved prefix and check it never changes
    pub check_reserved: bool,
    /// spurious weak-CAS failure rate (num, den) for sync arenas
    pub spurious: Option<(u64, u64, u64)>,
    /// take a memory snapshot every n-th atomic step (crash points)
    pub crash_snaps: Option<u64>,
}

impl Default for ExecOpts {
    fn default() -> Self {
        ExecOpts { check_reserved: true, spurious: None, crash_snaps: None }
    }
}

pub struct Exec<A: Ar> {
    pub cfg: Cfg,
    pub path: Option<PathBuf>,
    pub arenas: Vec<Option<Box<A>>>,
    pub live: Vec<LiveH>,
    pub kept: Vec<Range>,
    pub dead_zones: Vec<(usize, usize)>,
    pub next_id: u64,
    pub viols: Vec<Violation>,
    pub reserved_pat: Vec<u8>,
    pub ro: bool,
    pub cow: bool,
    /// issue truncate although other arena values / owned handles are alive (they legally can be)
    pub shared_truncate: bool,
    /// the current copy-on-write session was opened with a read-only file descriptor
    pub cow_ro_fd: bool,
    pub rewound: bool,
    pub dead: bool,
    pub step: usize,
    pub stats: ExecStats,
    pub opts: ExecOpts,
    pub dropped_ids: Vec<u64>,
    pub data_offset: usize,
    pub expect_refs_extra: (usize, usize),
    /// durable image of a file-backed arena at the last writable close
    pub durable: Option<Durable>,
    pub remove_on_drop: bool,
    pub late_remove: bool,
    /// when set, only violations of these properties are recorded (others are ignored)
    pub only_props: Option<Vec<&'static str>>,
}

#[derive(Clone, Debug)]
pub struct Durable {
    pub snap: Snap,
    pub bytes: Vec<u8>,
    pub kept: Vec<Range>,
    pub dead_zones: Vec<(usize, usize)>,
    pub data_offset: usize,
    pub magic: u16,
    pub capacity: usize,
    pub rewound: bool,
    /// the file as the last writable session left it
    pub file: Vec<u8>,
}

/// RSIM_STRICT=1: stop a history at the first violation of any property (used to attribute process deaths).
pub fn strict_mode() -> bool {
    static S: std::sync::OnceLock<bool> = std::sync::OnceLock::new();
    *S.get_or_init(|| std::env::var("RSIM_STRICT").is_ok())
}

fn align_up(x: usize, a: usize) -> usize {
    (x + a - 1) & !(a - 1)
}

fn overlaps(a: (usize, usize), b: (usize, usize)) -> bool {
    a.1 > 0 && b.1 > 0 && a.0 < b.0 + b.1 && b.0 < a.0 + a.1
}

pub fn panic_message(p: &Box<dyn std::any::Any + Send>) -> (&'static str, String) {
    if let Some(a) = p.downcast_ref::<SimAbort>() {
        (a.class, a.detail.clone())
    } else if let Some(s) = p.downcast_ref::<String>() {
        ("panic", s.clone())
    } else if let Some(s) = p.downcast_ref::<&str>() {
        ("panic", s.to_string())
    } else {
        ("panic", "unknown panic payload".into())
    }
}

impl<A: Ar> Exec<A> {
    /// Wraps an already constructed arena.
    pub fn with_arena(cfg: Cfg, path: Option<PathBuf>, arena: A, opts: ExecOpts) -> Exec<A> {
        let mut e = Exec {
            cfg,
            path,
            arenas: vec![Some(Box::new(arena))],
            live: Vec::new(),
            kept: Vec::new(),
            dead_zones: Vec::new(),
            next_id: 1,
            viols: Vec::new(),
            reserved_pat: Vec::new(),
            ro: false,
            cow: false,
            shared_truncate: false,
            cow_ro_fd: false,
            rewound: false,
            dead: false,
            step: 0,
            stats: ExecStats::default(),
            opts,
            dropped_ids: Vec::new(),
            data_offset: 0,
            expect_refs_extra: (0, 0),
            durable: None,
            remove_on_drop: false,
            late_remove: false,
            only_props: None,
        };
        e.ro = e.a().read_only();
        e.data_offset = e.a().data_offset();
        if e.opts.check_reserved && !e.ro && e.a().reserved_bytes() > 0 {
            let n = e.a().reserved_bytes();
            e.reserved_pat = pattern(0xFEED, n);
            unsafe { e.a().reserved_slice_mut().copy_from_slice(&e.reserved_pat) };
        } else if e.opts.check_reserved {
            e.reserved_pat = e.a().reserved_slice().to_vec();
        }
        e.install_hook();
        e
    }

    pub fn new(cfg: Cfg, path: Option<PathBuf>, opts: ExecOpts) -> Result<Exec<A>, BuildErr> {
        hook::set_mode(Mode::Off);
        let arena = build::<A>(&cfg, path.as_deref())?;
        Ok(Self::with_arena(cfg, path, arena, opts))
    }

    pub fn install_hook(&mut self) {
        let a = self.a();
        let base = a.raw_ptr() as usize;
        let cap = a.capacity();
        let words = a.vwords();
        let spurious = self.opts.spurious;
        let crash = self.opts.crash_snaps;
        let self_step = self.step;
        ST.with(|st| {
            let mut st = st.borrow_mut();
            let keep_steps = st.total_steps;
            let keep_hash = st.trace_hash;
            let keep_probes = std::mem::take(&mut st.probes);
            let keep_sp = st.spurious_fired;
            let keep_snaps = std::mem::take(&mut st.snaps);
            let keep_max = st.max_call_steps;
            let keep_rng = st.spurious.take();
            st.reset();
            st.total_steps = keep_steps;
            st.trace_hash = keep_hash;
            st.probes = keep_probes;
            st.spurious_fired = keep_sp;
            st.snaps = keep_snaps;
            st.max_call_steps = keep_max;
            st.regions.push((base, cap, Region::Arena));
            if let Some((_, (mb, ml))) = words {
                st.regions.push((mb, ml, Region::MemoryBox));
            }
            st.spurious = match (keep_rng, spurious) {
                (Some(r), Some(_)) => Some(r),
                (None, Some((seed, n, d))) => Some((crate::rng::Rng::new(seed ^ (self_step as u64).wrapping_mul(0x9E37_79B9_7F4A_7C15)), n, d)),
                _ => None,
            };
            if let Some(every) = crash {
                st.snap_src = Some((base, cap));
                st.snap_every = every;
            }
        });
        hook::set_mode(Mode::St);
    }

    /// Any live arena value.
    pub fn a(&self) -> &'static A {
        for a in self.arenas.iter().flatten() {
            return unsafe { &*(a.as_ref() as *const A) };
        }
        panic!("no live arena value");
    }

    fn arena_at(&self, hint: usize) -> (usize, &'static A) {
        let liv: Vec<usize> = self.arenas.iter().enumerate().filter(|(_, a)| a.is_some()).map(|(i, _)| i).collect();
        let i = liv[hint % liv.len()];
        (i, unsafe { &*(self.arenas[i].as_ref().unwrap().as_ref() as *const A) })
    }

    pub fn live_arenas(&self) -> usize {
        self.arenas.iter().filter(|a| a.is_some()).count()
    }

    fn v(&mut self, prop: &'static str, class: &'static str, detail: String) {
        if let Some(only) = &self.only_props {
            if !only.contains(&prop) {
                return;
            }
        }
        // keep at most one violation per (property, class) and 24 in total
        if self.viols.len() < 24 && !self.viols.iter().any(|x| x.prop == prop && x.class == class) {
            self.viols.push(Violation { prop, class, detail, op: self.step });
        }
        // Some violations mean that the shadow model and the arena have diverged so far that the harness
        // itself could act illegally afterwards (use a range the arena has handed to somebody else, walk a
        // destroyed list): the history stops there. Accounting / policy / layout violations do not, so that
        // a check still sees the violations of *its* property that follow.
        let fatal = match (prop, class) {
            ("C03", _) | ("C08", _) | ("C10", _) | ("C16", _) | ("C20", _) => false,
            ("C13", "release_cursor") | ("C13", "release_effect") | ("C13", "release_amount") | ("C13", "refs") | ("C13", "value_drop") | ("C13", "detached_released") | ("C13", "clone_side_effect") => false,
            ("C04", "error_kind") | ("C04", "error_not_clean") | ("C04", "readonly_alloc") => false,
            // what a wrong truncate leaves behind (reverted state, changed bytes) is judged by the other properties
            ("C18", "capacity") | ("C18", "refused_fitting") | ("C18", "cow_file_changed") | ("C18", "state_changed") | ("C18", "bytes_changed") => false,
            // a clear() that leaves something behind: the consequences (stale bytes handed out, a file that does not
            // reopen) belong to other properties and must stay observable
            ("C17", "clear_state") | ("C17", "clear_not_zeroed") => false,
            ("C05", "header_changed") | ("C05", "meta_changed") | ("C05", "freelist_changed") | ("C05", "reserved_changed") | ("C05", "bytes_changed") => false,
            _ => true,
        };
        if fatal || strict_mode() {
            self.dead = true;
        }
    }

    fn mem(&self) -> &'static [u8] {
        let a = self.a();
        unsafe { std::slice::from_raw_parts(a.raw_ptr(), a.capacity()) }
    }

    pub fn obs(&self, result: String, meta: Option<(usize, usize, usize, usize)>, ret: Option<u64>) -> Obs {
        // observation calls of the harness are not part of the history: no steps, no crash points
        let m = hook::mode();
        hook::set_mode(Mode::Off);
        let o = self.obs_inner(result, meta, ret);
        hook::set_mode(m);
        o
    }

    fn obs_inner(&self, result: String, meta: Option<(usize, usize, usize, usize)>, ret: Option<u64>) -> Obs {
        let a = self.a();
        let s = a.snap();
        Obs {
            result,
            meta,
            ret,
            allocated: s.allocated,
            discarded: s.discarded,
            min_seg: s.min_seg,
            remaining: a.remaining(),
            capacity: a.capacity(),
            nodes: s.nodes,
            refs: a.vrefs(),
        }
    }

    /// Executes one operation and evaluates the oracles. Returns the observation tuple.
    pub fn step(&mut self, op: &Op) -> Obs {
        if self.dead {
            return Obs { result: "dead".into(), ..Default::default() };
        }
        self.stats.ops += 1;
        ST.with(|st| st.borrow_mut().begin_call());
        let r = catch_unwind(AssertUnwindSafe(|| self.apply(op)));
        let obs = match r {
            Ok(o) => o,
            Err(p) => {
                hook::set_mode(Mode::Off);
                let (class, detail) = panic_message(&p);
                // a call that panics, leaves the arena or does not return violates the property that states what
                // that call does
                let prop: &'static str = match (class, op) {
                    (_, Op::Alloc { .. }) | (_, Op::Fill) => "C04",
                    ("nontermination", _) => "C07",
                    (_, Op::Truncate(_)) => "C18",
                    (_, Op::Reopen { .. }) | (_, Op::Flush(_)) => "C05",
                    (_, Op::Rewind(_)) | (_, Op::Clear) => "C17",
                    (_, Op::DiscardFreelist) | (_, Op::IncDiscarded(_)) => "C20",
                    (_, Op::SetMinSeg(_)) => "C16",
                    (_, Op::Drop { .. }) | (_, Op::DetachDrop { .. }) | (_, Op::Dealloc { .. }) | (_, Op::CloneArena { .. }) | (_, Op::DropArena { .. }) => "C13",
                    _ => "CRASH",
                };
                if class == "wild_write" && detail.starts_with("Meta::clear") && matches!(op, Op::Alloc { .. } | Op::Fill) {
                    // Meta::clear zeroes exactly the extent that the call is about to hand out: an extent outside
                    // the arena buffer is also, literally, a C01 matter ("in bounds") — the call is stopped before
                    // it returns, so the live-range oracle never gets to see the handle
                    self.v("C01", "out_of_bounds", format!("{} during {:?}: the extent being handed out is not inside the arena", detail, op));
                }
                self.v(prop, class, format!("{} during {:?}", detail, op));
                self.dead = true;
                return Obs { result: format!("crash:{}", class), ..Default::default() };
            }
        };
        if !self.dead {
            let r = catch_unwind(AssertUnwindSafe(|| self.global_checks()));
            if r.is_err() {
                self.v("CRASH", "panic", "oracle panicked (arena state unreadable)".into());
                self.dead = true;
            }
        }
        self.step += 1;
        obs
    }

    fn refs_expected(&self) -> (usize, usize) {
        let base = self.live_arenas();
        let mut lo = base;
        let mut hi = base;
        for l in &self.live {
            match l.r.embeds {
                1 => {
                    lo += 1;
                    hi += 1;
                }
                2 => hi += 1,
                _ => {}
            }
        }
        (lo, hi)
    }

    /// Oracles evaluated after every step.
    pub fn global_checks(&mut self) {
        let m = hook::mode();
        hook::set_mode(Mode::Off);
        self.global_checks_inner();
        hook::set_mode(m);
    }

    fn global_checks_inner(&mut self) {
        let a = self.a();
        let s = a.snap();
        let mem = self.mem();
        let cap = a.capacity();
        let allocated = s.allocated as usize;
        let data_offset = a.data_offset();
        // --- C16: remaining, reserved prefix
        if a.remaining() != cap.saturating_sub(allocated) || a.allocated() != allocated {
            self.v("C16", "remaining", format!("remaining()={} capacity()={} allocated()={}", a.remaining(), cap, allocated));
        }
        if self.opts.check_reserved && a.reserved_slice() != &self.reserved_pat[..] {
            self.v("C16", "reserved_written", "reserved prefix changed".into());
        }
        if data_offset != self.data_offset {
            self.v("C16", "data_offset_changed", format!("data_offset {} -> {}", self.data_offset, data_offset));
        }
        // --- C01: live ranges
        let mut ranges: Vec<(usize, usize, u64)> = Vec::new();
        let mut bad: Vec<(&'static str, &'static str, String)> = Vec::new();
        for r in self.live.iter().map(|l| &l.r).chain(self.kept.iter()) {
            if r.cap == 0 {
                continue;
            }
            if r.off < data_offset || r.off + r.cap > allocated {
                bad.push(("C01", "out_of_bounds", format!("range id={} [{},{}) not inside data area [{},{})", r.id, r.off, r.off + r.cap, data_offset, allocated)));
            }
            if r.off + r.cap <= cap && mem[r.off..r.off + r.cap] != r.bytes[..] {
                let i = (0..r.cap).find(|i| mem[r.off + i] != r.bytes[*i]).unwrap();
                bad.push(("C01", "bytes_changed", format!("range id={} [{},{}) byte +{} is {:#x}, expected {:#x}", r.id, r.off, r.off + r.cap, i, mem[r.off + i], r.bytes[i])));
            }
            ranges.push((r.off, r.cap, r.id));
        }
        ranges.sort();
        for w in ranges.windows(2) {
            if w[0].0 + w[0].1 > w[1].0 {
                bad.push(("C01", "overlap", format!("ranges id={} [{},{}) and id={} [{},{}) overlap", w[0].2, w[0].0, w[0].0 + w[0].1, w[1].2, w[1].0, w[1].0 + w[1].1)));
            }
        }
        // --- C20: dead zones never handed out again
        for (o, l, id) in &ranges {
            for z in &self.dead_zones {
                if overlaps((*o, *l), *z) {
                    bad.push(("C20", "discarded_reused", format!("range id={} [{},{}) overlaps discarded bytes [{},{})", id, o, o + l, z.0, z.0 + z.1)));
                }
            }
        }
        // --- C10: well-formedness
        if !s.complete {
            bad.push(("C10", "malformed", format!("free list walk did not end at the tail: {:?}", s.nodes.iter().take(8).collect::<Vec<_>>())));
        } else {
            let mut ext: Vec<(usize, usize)> = Vec::new();
            for (i, n) in s.nodes.iter().enumerate() {
                let (off, size) = (n.0 as usize, n.1 as usize);
                if off % 8 != 0 {
                    bad.push(("C10", "misaligned", format!("node at {} not 8-aligned", off)));
                }
                if size == 0 {
                    bad.push(("C10", "removed_node", format!("node at {} has size 0 (removal marker) at a quiescent point", off)));
                }
                let end = off + 8 + size;
                if off < data_offset || end > cap || (!self.rewound && end > allocated) {
                    bad.push(("C10", "segment_out_of_area", format!("segment [{},{}) outside handed-out data area [{},{})", off, end, data_offset, allocated)));
                }
                if i > 0 {
                    let prev = s.nodes[i - 1].1;
                    if (self.cfg.freelist == 1 && prev < n.1) || (self.cfg.freelist == 2 && prev > n.1) {
                        bad.push(("C10", "order", format!("sizes out of order: {} then {} (freelist kind {})", prev, n.1, self.cfg.freelist)));
                    }
                }
                ext.push((off, 8 + size));
            }
            if self.cfg.freelist == 0 && !s.nodes.is_empty() {
                bad.push(("C10", "none_has_nodes", "Freelist::None arena has free-list nodes".into()));
            }
            let mut sorted = ext.clone();
            sorted.sort();
            for w in sorted.windows(2) {
                if w[0].0 + w[0].1 > w[1].0 {
                    bad.push(("C10", "segments_overlap", format!("segments [{},{}) and [{},{}) overlap", w[0].0, w[0].0 + w[0].1, w[1].0, w[1].0 + w[1].1)));
                }
            }
            for e in &ext {
                for (o, l, id) in &ranges {
                    if overlaps(*e, (*o, *l)) {
                        bad.push(("C10", "segment_overlaps_live", format!("segment [{},{}) overlaps live range id={} [{},{})", e.0, e.0 + e.1, id, o, o + l)));
                    }
                }
            }
        }
        // --- C13: refs
        let (lo, hi) = self.refs_expected();
        let refs = a.vrefs();
        if refs < lo || refs > hi {
            bad.push(("C13", "refs", format!("refs()={} but {}..={} arena values are alive", refs, lo, hi)));
        }
        if a.refs() != refs {
            bad.push(("C13", "refs", format!("refs() accessor {} differs from stored count {}", a.refs(), refs)));
        }
        for (p, c, d) in bad {
            self.v(p, c, d);
        }
        self.stats.max_nodes = self.stats.max_nodes.max(s.nodes.len() as u64);
        self.stats.max_live = self.stats.max_live.max((self.live.len() + self.kept.len()) as u64);
        // abstract state hash: cursor, list shape, live set
        let mut h = crate::rng::hash_add(self.stats.state_hash, s.allocated as u64);
        for n in &s.nodes {
            h = crate::rng::hash_add(h, ((n.0 as u64) << 32) | n.1 as u64);
        }
        for (o, l, _) in &ranges {
            h = crate::rng::hash_add(h, ((*o as u64) << 32) | *l as u64);
        }
        self.stats.state_hash = h;
    }

    /// Model of `dealloc(boff, bcap)` on snapshot `pre`. Returns (expected allocated,
    /// expected discarded delta (exact?), new node, dead zone).
    fn release_model(&self, pre: &Snap, boff: usize, bcap: usize) -> (u32, u32, bool, Option<(u32, u32)>, Option<(usize, usize)>) {
        if bcap == 0 {
            return (pre.allocated, 0, true, None, None);
        }
        if boff + bcap == pre.allocated as usize {
            return (boff as u32, 0, true, None, None);
        }
        if self.cfg.freelist == 0 {
            return (pre.allocated, bcap as u32, true, None, Some((boff, bcap)));
        }
        let aligned = align_up(boff, 8);
        let padding = aligned - boff;
        if padding + 8 >= bcap {
            return (pre.allocated, bcap as u32, true, None, Some((boff, bcap)));
        }
        let avail = bcap - padding - 8;
        if (avail as u32) < pre.min_seg {
            return (pre.allocated, bcap as u32, true, None, Some((boff, bcap)));
        }
        (pre.allocated, 0, false, Some((aligned as u32, avail as u32)), None)
    }

    fn check_release(&mut self, what: &str, pre: &Snap, post: &Snap, boff: usize, bcap: usize) {
        let (exp_alloc, disc, exact, node, zone) = self.release_model(pre, boff, bcap);
        self.stats.releases += 1;
        if post.allocated != exp_alloc {
            self.v("C13", "release_cursor", format!("{} of extent [{},{}): allocated {} -> {}, expected {}", what, boff, boff + bcap, pre.allocated, post.allocated, exp_alloc));
        }
        if post.min_seg != pre.min_seg {
            self.v("C13", "release_effect", format!("{} changed the minimum segment size", what));
        }
        let delta = post.discarded.wrapping_sub(pre.discarded);
        if post.discarded < pre.discarded {
            self.v("C20", "decreased", format!("{}: discarded {} -> {}", what, pre.discarded, post.discarded));
        } else if exact && delta != disc {
            if delta > disc {
                // more than the handle's own extent was given up (e.g. the same extent accounted twice)
                self.v("C13", "release_amount", format!("{} of extent [{},{}) ({} bytes): discarded() rose by {} - the handle released more than its own extent, or released it more than once", what, boff, boff + bcap, bcap, delta));
            }
            self.v("C20", "release_accounting", format!("{} of extent [{},{}) (freelist kind {}, min_seg {}): discarded rose by {}, expected {}", what, boff, boff + bcap, self.cfg.freelist, pre.min_seg, delta, disc));
        }
        // node set
        let mut want: Vec<(u32, u32)> = pre.nodes.iter().map(|n| (n.0, n.1)).collect();
        if let Some(n) = node {
            want.push(n);
            self.stats.releases_to_list += 1;
        } else if exp_alloc != pre.allocated {
            self.stats.releases_top += 1;
        } else if bcap > 0 {
            self.stats.releases_discarded += 1;
        }
        want.sort();
        let mut got: Vec<(u32, u32)> = post.nodes.iter().map(|n| (n.0, n.1)).collect();
        got.sort();
        if want != got {
            self.v("C13", "release_effect", format!("{} of extent [{},{}): free list is {:?}, expected {:?}", what, boff, boff + bcap, got, want));
        }
        if let Some(z) = zone {
            self.dead_zones.push(z);
        }
    }

    fn write_pattern(&mut self, idx: usize) {
        let id = self.next_id;
        self.next_id += 1;
        let l = &mut self.live[idx];
        let p = l.h.0.wptr();
        if p.is_null() || l.r.cap == 0 {
            return;
        }
        let pat = pattern(id, l.r.cap);
        unsafe { std::ptr::copy_nonoverlapping(pat.as_ptr(), p, pat.len()) };
        l.r.bytes = pat;
    }

    fn kill_handles_above(&mut self, target: usize) {
        // the caller of rewind promises not to use anything above the new cursor
        let mut i = 0;
        while i < self.live.len() {
            let r = &self.live[i].r;
            if r.bcap > 0 && (r.boff + r.bcap > target || r.off + r.cap > target) {
                let mut l = self.live.remove(i);
                l.h.0.detach_();
                drop(l);
            } else {
                i += 1;
            }
        }
        self.kept.retain(|r| !(r.boff + r.bcap > target || r.off + r.cap > target));
        self.dead_zones.retain(|z| z.0 + z.1 <= target);
    }

    fn apply(&mut self, op: &Op) -> Obs {
        match op {
            Op::Alloc { kind, ty, size, owned, arena } => self.do_alloc_op(*kind, *ty, *size, *owned, *arena),
            Op::Fill => {
                let rem = self.a().remaining() as u32;
                let o = self.do_alloc_op(AllocKind::Bytes, 0, rem, false, 0);
                if o.result == "ok" && !self.live.is_empty() {
                    let mut l = self.live.pop().unwrap();
                    l.h.0.detach_();
                    let r = l.r.clone();
                    drop(l);
                    if r.cap > 0 {
                        self.kept.push(r);
                    }
                }
                o
            }
            Op::Drop { h } => {
                if self.live.is_empty() {
                    return self.obs("noop".into(), None, None);
                }
                let idx = h % self.live.len();
                let l = self.live.remove(idx);
                let pre = self.a().snap();
                let _ = take_drops();
                let (boff, bcap) = (l.r.boff, l.r.bcap);
                let drop_id = l.r.drop_id;
                let meta = Some((l.r.off, l.r.cap, boff, bcap));
                drop(l);
                let post = self.a().snap();
                let drops = take_drops();
                if self.ro {
                    // handles cannot exist on a read-only arena
                } else {
                    self.check_release("drop", &pre, &post, boff, bcap);
                }
                if let Some(id) = drop_id {
                    let n = drops.iter().filter(|d| **d == id).count();
                    if n != 1 || self.dropped_ids.contains(&id) {
                        self.v("C13", "value_drop", format!("value id={} dropped {} times at handle drop (already dropped before: {})", id, n, self.dropped_ids.contains(&id)));
                    }
                    self.dropped_ids.push(id);
                } else if !drops.is_empty() {
                    self.v("C13", "value_drop", format!("unexpected value drops {:?}", drops));
                }
                self.obs("ok".into(), meta, None)
            }
            Op::DetachDrop { h } => {
                if self.live.is_empty() {
                    return self.obs("noop".into(), None, None);
                }
                let idx = h % self.live.len();
                let mut l = self.live.remove(idx);
                let pre = self.a().snap();
                let _ = take_drops();
                l.h.0.detach_();
                let r = l.r.clone();
                drop(l);
                let post = self.a().snap();
                let drops = take_drops();
                if pre != post {
                    self.v("C13", "detached_released", format!("dropping a detached handle changed the arena: {:?} -> {:?}", pre.to_json(), post.to_json()));
                }
                if !drops.is_empty() {
                    self.v("C13", "value_drop", format!("detached handle dropped its value {:?}", drops));
                }
                let meta = Some((r.off, r.cap, r.boff, r.bcap));
                if r.bcap > 0 {
                    self.kept.push(r);
                }
                self.obs("ok".into(), meta, None)
            }
            Op::Dealloc { k } => {
                if self.kept.is_empty() || self.ro {
                    return self.obs("noop".into(), None, None);
                }
                let idx = k % self.kept.len();
                let r = self.kept.remove(idx);
                let pre = self.a().snap();
                let ok = unsafe { self.a().dealloc(r.boff as u32, r.bcap as u32) };
                let post = self.a().snap();
                self.check_release("dealloc", &pre, &post, r.boff, r.bcap);
                self.obs("ok".into(), Some((r.off, r.cap, r.boff, r.bcap)), Some(ok as u64))
            }
            Op::Rewrite { h } => {
                if self.live.is_empty() {
                    return self.obs("noop".into(), None, None);
                }
                let idx = h % self.live.len();
                self.write_pattern(idx);
                self.obs("ok".into(), None, None)
            }
            Op::DiscardFreelist => {
                let pre = self.a().snap();
                let r = self.a().discard_freelist();
                let post = self.a().snap();
                match r {
                    Ok(n) => {
                        if self.ro {
                            self.v("C20", "readonly_discard", "discard_freelist succeeded on a read-only arena".into());
                        }
                        let sum = pre.total_size();
                        if n as u64 != sum {
                            self.v("C20", "discard_return", format!("discard_freelist returned {}, list held {} bytes in {} segments", n, sum, pre.nodes.len()));
                        }
                        if post.discarded.wrapping_sub(pre.discarded) as u64 != sum || post.discarded < pre.discarded {
                            self.v("C20", "discard_accounting", format!("discarded {} -> {}, list held {}", pre.discarded, post.discarded, sum));
                        }
                        if !post.nodes.is_empty() || !post.complete {
                            self.v("C20", "discard_not_empty", format!("free list not empty after discard_freelist: {:?}", post.nodes));
                        }
                        if post.allocated != pre.allocated || post.min_seg != pre.min_seg {
                            self.v("C20", "discard_side_effect", "discard_freelist changed cursor or minimum segment size".into());
                        }
                        for nd in &pre.nodes {
                            self.dead_zones.push((nd.0 as usize, 8 + nd.1 as usize));
                        }
                        self.obs("ok".into(), None, Some(n as u64))
                    }
                    Err(e) => {
                        if !(self.ro && matches!(e, Error::ReadOnly)) {
                            self.v("C20", "discard_error", format!("discard_freelist failed with {:?} on a writable arena", e));
                        }
                        if pre != post {
                            self.v("C20", "discard_error", "failed discard_freelist changed the arena".into());
                        }
                        self.obs(format!("err:{}", err_kind(&e)), None, None)
                    }
                }
            }
            Op::SetMinSeg(n) => {
                if self.ro {
                    return self.obs("noop".into(), None, None);
                }
                let pre = self.a().snap();
                self.a().set_minimum_segment_size(*n);
                let post = self.a().snap();
                if post.min_seg != *n || self.a().minimum_segment_size() != *n {
                    self.v("C16", "min_seg", format!("minimum_segment_size() is {} after set_minimum_segment_size({})", post.min_seg, n));
                }
                if post.allocated != pre.allocated || post.discarded != pre.discarded || post.nodes != pre.nodes {
                    self.v("C16", "min_seg", "set_minimum_segment_size changed other state".into());
                }
                self.obs("ok".into(), None, None)
            }
            Op::IncDiscarded(n) => {
                if self.ro {
                    return self.obs("noop".into(), None, None);
                }
                let pre = self.a().snap();
                self.a().increase_discarded(*n);
                let post = self.a().snap();
                if post.discarded != pre.discarded.wrapping_add(*n) || self.a().discarded() != post.discarded {
                    self.v("C20", "increase_discarded", format!("discarded {} -> {} after increase_discarded({})", pre.discarded, post.discarded, n));
                }
                if post.allocated != pre.allocated || post.min_seg != pre.min_seg || post.nodes != pre.nodes {
                    self.v("C20", "increase_discarded", "increase_discarded changed other state".into());
                }
                self.obs("ok".into(), None, None)
            }
            Op::Rewind(pos) => {
                if self.ro {
                    return self.obs("noop".into(), None, None);
                }
                let a = self.a();
                let cap = a.capacity() as i128;
                let d0 = a.data_offset() as i128;
                let cur = a.snap().allocated as i128;
                let raw: i128 = match pos {
                    Pos::Start(n) => *n as i128,
                    Pos::End(n) => cap - *n as i128,
                    Pos::Current(d) => cur + *d as i128,
                };
                let target = raw.clamp(d0, cap) as usize;
                // make the state safe for the rewind: nothing above the target is used afterwards
                if target < cur as usize {
                    self.kill_handles_above(target);
                    let s = a.snap();
                    if s.nodes.iter().any(|n| (n.0 as usize + 8 + n.1 as usize) > target) {
                        let _ = a.discard_freelist();
                        self.dead_zones.retain(|z| z.0 + z.1 <= target);
                    }
                }
                let pre = a.snap();
                let reserved_before = a.reserved_slice().to_vec();
                let ap = match pos {
                    Pos::Start(n) => ArenaPosition::Start(*n),
                    Pos::End(n) => ArenaPosition::End(*n),
                    Pos::Current(d) => ArenaPosition::Current(*d),
                };
                unsafe { a.rewind(ap) };
                let post = a.snap();
                self.stats.rewinds += 1;
                if post.discarded < pre.discarded {
                    self.v("C20", "decreased", format!("rewind({:?}): discarded() went from {} down to {}", pos, pre.discarded, post.discarded));
                }
                if post.allocated as usize != target {
                    self.v("C17", "rewind_position", format!("rewind({:?}) with allocated={} cap={} data_offset={}: cursor is {}, reference clamp gives {}", pos, cur, cap, d0, post.allocated, target));
                }
                if (post.allocated as i128) < d0 && (post.allocated as usize) != target && self.opts.check_reserved && !self.ro {
                    // The history ends here for C17 (the cursor is not where the reference clamp puts it). C16 says
                    // that no arena operation writes the reserved prefix: one more operation of the same history —
                    // an allocation of the bytes between the cursor and data_offset — shows whether this cursor
                    // position hands the prefix out.
                    let n = (d0 - post.allocated as i128) as u32;
                    let id = self.next_id;
                    self.next_id += 1;
                    if let Ok(mut h) = do_alloc(a, AllocKind::Bytes, 0, n, false, id) {
                        let (off, hcap, _, _) = h.meta();
                        if a.reserved_slice() != &self.reserved_pat[..] {
                            self.v("C16", "reserved_written", format!("after rewind({:?}) left the cursor at {} in front of data_offset {}, alloc_bytes({}) returned [{},{}) and the reserved prefix changed", pos, post.allocated, d0, n, off, off + hcap));
                        }
                        h.detach_();
                    }
                }
                if post.discarded != pre.discarded || post.min_seg != pre.min_seg || post.nodes != pre.nodes || post.sentinel != pre.sentinel || a.reserved_slice() != &reserved_before[..] {
                    self.v("C17", "rewind_side_effect", format!("rewind({:?}) changed more than the cursor", pos));
                }
                if (post.allocated as usize) > cur as usize {
                    // skipped-over bytes belong to nobody; later allocations may legitimately cover them
                    self.rewound = true;
                }
                if (post.allocated as usize) < cur as usize {
                    self.rewound = true;
                }
                self.obs("ok".into(), None, None)
            }
            Op::Clear => {
                if self.ro {
                    return self.obs("noop".into(), None, None);
                }
                self.kill_handles_above(0);
                // zero-sized handles occupy nothing but owned ones embed an arena value: release them too
                while let Some(mut l) = self.live.pop() {
                    l.h.0.detach_();
                    drop(l);
                }
                self.dead_zones.clear();
                let a = self.a();
                let pre = a.snap();
                let r = unsafe { a.clear() };
                let post = a.snap();
                self.stats.clears += 1;
                if r.is_err() {
                    self.v("C17", "clear_error", format!("clear() failed: {:?}", r));
                }
                let d0 = a.data_offset();
                if d0 != self.data_offset {
                    self.v("C16", "data_offset_changed", format!("data_offset() is {} after clear(), it was {}", d0, self.data_offset));
                }
                let d0 = self.data_offset;
                if post.allocated as usize != d0 || !post.nodes.is_empty() || !post.complete || post.discarded != 0 || post.min_seg != pre.min_seg {
                    self.v("C17", "clear_state", format!("after clear(): {:?} (data_offset {}, min_seg before {})", post.to_json(), d0, pre.min_seg));
                }
                let mem = self.mem();
                if let Some(i) = (d0..a.capacity()).find(|i| mem[*i] != 0) {
                    self.v("C17", "clear_not_zeroed", format!("byte {} of the data area is {:#x} after clear()", i, mem[i]));
                }
                self.rewound = false;
                self.obs("ok".into(), None, None)
            }
            Op::CloneArena { from } => {
                if self.live_arenas() >= 6 {
                    return self.obs("noop".into(), None, None);
                }
                let (_, a) = self.arena_at(*from);
                let pre = a.snap();
                let c = a.clone();
                self.arenas.push(Some(Box::new(c)));
                let post = self.a().snap();
                self.stats.clones += 1;
                if pre != post {
                    self.v("C13", "clone_side_effect", "cloning the arena changed allocator state".into());
                }
                self.obs("ok".into(), None, None)
            }
            Op::DropArena { k } => {
                if self.live_arenas() <= 1 {
                    return self.obs("noop".into(), None, None);
                }
                let (idx, _) = self.arena_at(*k);
                if self.live.iter().any(|l| l.arena_idx == Some(idx)) {
                    return self.obs("noop".into(), None, None);
                }
                let t0 = ST.with(|st| st.borrow().teardowns);
                self.arenas[idx] = None;
                let t1 = ST.with(|st| st.borrow().teardowns);
                if t1 != t0 {
                    self.v("C13", "early_teardown", "backing memory released while arena values are still alive".into());
                    self.dead = true;
                    return Obs { result: "crash:early_teardown".into(), ..Default::default() };
                }
                self.obs("ok".into(), None, None)
            }
            Op::Flush(n) => {
                let a = self.a();
                let all = a.allocated();
                // 5 / 6: lock / unlock one page of the mapping (a locked page makes later madvise / munmap-style calls
                // of the library fail or behave differently; no allocator state may depend on it)
                let cap = a.capacity();
                let pages = (cap / 4096).max(1);
                let off = (self.step % pages) * 4096;
                let len = (cap - off).min(4096);
                let r = match n % 7 {
                    0 => a.flush(),
                    1 => a.flush_async(),
                    2 => a.flush_range(0, all),
                    3 => a.flush_header(),
                    4 => a.flush_header_and_range(0, all),
                    5 => unsafe { a.mlock(off, len) },
                    _ => unsafe { a.munlock(off, len) },
                };
                self.obs(if r.is_ok() { "ok".into() } else { "err:io".into() }, None, None)
            }
            Op::Reopen { mode, cap } => self.reopen(*mode, *cap),
            Op::Truncate(n) => self.truncate(*n),
        }
    }

    fn do_alloc_op(&mut self, kind: AllocKind, ty: u8, size: u32, owned: bool, arena_hint: usize) -> Obs {
        let (aidx, a) = self.arena_at(arena_hint);
        let pre = a.snap();
        let ti = ty_info(ty);
        let id = self.next_id;
        self.next_id += 1;
        let res = do_alloc(a, kind, ty, size, owned, id);
        let post = a.snap();
        let cap = a.capacity();
        // logical request: (exact bytes needed at least, bytes that are certainly enough)
        let (need_lo, need_hi, align) = match kind {
            AllocKind::Bytes => (size as u64, size as u64, 1usize),
            AllocKind::Typed => (ti.size as u64, (ti.size + ti.align.saturating_sub(1)) as u64, ti.align),
            AllocKind::Aligned => {
                if ti.size == 0 && (ti.align == 1 || size == 0) {
                    (size as u64, size as u64, 1)
                } else {
                    (ti.size as u64 + size as u64, (ti.size + ti.align - 1) as u64 + size as u64, ti.align)
                }
            }
        };
        let zero_request = need_lo == 0;
        match res {
            Ok(mut h) => {
                let (off, hcap, boff, bcap) = h.meta();
                self.stats.allocs_ok += 1;
                if self.ro && (hcap != 0 || bcap != 0) {
                    self.v("C04", "readonly_alloc", format!("allocation of [{},{}) succeeded on a read-only arena", off, off + hcap));
                }
                // ---- C03
                if zero_request {
                    self.stats.zero_size += 1;
                    if hcap != 0 || post.allocated != pre.allocated || post != pre {
                        self.v("C03", "zero_size", format!("zero-sized request returned capacity {} / changed the arena ({} -> {})", hcap, pre.allocated, post.allocated));
                    }
                } else {
                    match kind {
                        AllocKind::Bytes => {
                            if hcap != size as usize {
                                self.v("C03", "capacity", format!("alloc_bytes({}) returned capacity {}", size, hcap));
                            }
                        }
                        AllocKind::Typed => {
                            if hcap != ti.size {
                                self.v("C03", "capacity", format!("alloc::<{}>() returned capacity {}", ti.name, hcap));
                            }
                            if off % ti.align != 0 {
                                self.v("C03", "alignment", format!("alloc::<{}>() offset {} not a multiple of {}", ti.name, off, ti.align));
                            }
                            let addr = h.typed_addr();
                            if addr != 0 && ti.align <= self.cfg.max_align.max(8) && addr % ti.align != 0 {
                                self.v("C03", "alignment", format!("alloc::<{}>() address {:#x} not a multiple of {}", ti.name, addr % 4096, ti.align));
                            }
                            if !ti.needs_drop && addr != 0 && addr != a.raw_ptr() as usize + off {
                                self.v("C03", "alignment", format!("alloc::<{}>() pointer does not equal base + offset()", ti.name));
                            }
                        }
                        AllocKind::Aligned => {
                            // "can hold a well-aligned T and `size` more bytes": also for a zero-sized T with an alignment
                            if off % ti.align != 0 {
                                self.v("C03", "alignment", format!("alloc_aligned_bytes::<{}>({}) offset {} not a multiple of {}", ti.name, size, off, ti.align));
                            }
                            if (hcap as u64) < need_lo {
                                self.v("C03", "capacity", format!("alloc_aligned_bytes::<{}>({}) returned capacity {} < {}", ti.name, size, hcap, need_lo));
                            }
                        }
                    }
                    // in bounds of the mapping before we touch it
                    if off + hcap > cap || boff + bcap > cap + 8 {
                        // a live handle beyond the arena is also, literally, a C01 matter ("in bounds"); the history
                        // ends here, so the live-range oracle would never get to see it
                        if off + hcap > cap && hcap > 0 {
                            self.v("C01", "out_of_bounds", format!("handle [{},{}) returned by an allocation lies beyond capacity {}", off, off + hcap, cap));
                        }
                        self.v("C04", "out_of_capacity", format!("handle [{},{}) / buffer [{},{}) beyond capacity {}", off, off + hcap, boff, boff + bcap, cap));
                        std::mem::forget(h);
                        self.dead = true;
                        return Obs { result: "crash:out_of_capacity".into(), ..Default::default() };
                    }
                }
                let fresh = post.allocated > pre.allocated;
                let mem = self.mem();
                // ---- C08
                if kind == AllocKind::Bytes && hcap > 0 {
                    if let Some(i) = (0..hcap).find(|i| mem[off + i] != 0) {
                        self.v("C08", "not_zeroed", format!("alloc_bytes({}) -> [{},{}) byte +{} is {:#x} at return ({})", size, off, off + hcap, i, mem[off + i], if fresh { "fresh space" } else { "recycled segment" }));
                    }
                }
                // ---- C10 policy / C16 first allocation
                if !zero_request {
                    if fresh {
                        if post.nodes != pre.nodes {
                            self.v("C10", "fresh_touched_list", "allocation from fresh space changed the free list".into());
                        }
                        // C16 states this for the first allocation of an arena (cursor still at data_offset)
                        if pre.allocated as usize == self.data_offset && !self.rewound {
                            if boff != pre.allocated as usize {
                                self.v("C16", "first_offset", format!("first allocation buffer starts at {} but data_offset is {}", boff, pre.allocated));
                            }
                            if off != align_up(pre.allocated as usize, align) {
                                self.v("C16", "first_offset", format!("first allocation at {} is not the first offset aligned to {} at or after data_offset {}", off, align, pre.allocated));
                            }
                        }
                    } else {
                        self.stats.slow_allocs += 1;
                        if kind != AllocKind::Bytes {
                            self.stats.typed_slow += 1;
                        }
                        self.check_policy_ok(&pre, &post, boff, bcap, need_lo, need_hi);
                    }
                    if post.discarded < pre.discarded {
                        self.v("C20", "decreased", format!("allocation lowered discarded {} -> {}", pre.discarded, post.discarded));
                    }
                    // discarded bytes are bytes that are never used again: an allocation that splits nothing off
                    // releases nothing, so it cannot discard anything (what it does not need stays in its buffer)
                    let split = post.nodes.iter().any(|n| !pre.nodes.iter().any(|m| m.0 == n.0));
                    if !split && post.discarded != pre.discarded {
                        self.v("C20", "alloc_discarded_live_bytes", format!("an allocation that put nothing back on the free list raised discarded {} -> {} (buffer [{},{}))", pre.discarded, post.discarded, boff, boff + bcap));
                    }
                    if post.min_seg != pre.min_seg {
                        self.v("C10", "min_seg_changed", "allocation changed the minimum segment size".into());
                    }
                }
                let embeds = if !owned {
                    0
                } else if kind == AllocKind::Typed {
                    1
                } else if bcap == 0 {
                    2
                } else {
                    1
                };
                let r = Range {
                    id,
                    off,
                    cap: hcap,
                    boff,
                    bcap,
                    bytes: mem[off..off + hcap].to_vec(),
                    kind,
                    ty,
                    owned,
                    embeds,
                    drop_id: if kind == AllocKind::Typed && ty == TY_DROP { Some(id) } else { None },
                };
                self.live.push(LiveH { h: HBox(h), arena_idx: if owned { None } else { Some(aidx) }, r });
                let idx = self.live.len() - 1;
                self.write_pattern(idx);
                self.obs("ok".into(), Some((off, hcap, boff, bcap)), None)
            }
            Err(e) => {
                self.stats.allocs_err += 1;
                self.stats.exhaustion += 1;
                let kind_ok = if self.ro { matches!(e, Error::ReadOnly) } else { matches!(e, Error::InsufficientSpace { .. }) };
                if !kind_ok {
                    self.v("C04", "error_kind", format!("allocation failed with {:?} (read_only={})", e, self.ro));
                }
                if post != pre {
                    self.v("C04", "error_not_clean", format!("failed allocation changed the arena: {} -> {}", pre.to_json(), post.to_json()));
                }
                if zero_request && !self.ro {
                    self.v("C03", "zero_size", format!("zero-sized request failed with {:?} on a writable arena", e));
                }
                if !self.ro && !zero_request {
                    self.check_policy_err(&pre, need_hi);
                    // C18: after a truncate, allocations succeed exactly when they fit the new capacity
                    if self.stats.truncates > 0 {
                        let start = align_up(pre.allocated as usize, align) as u64;
                        if start + need_lo <= cap as u64 {
                            self.v("C18", "refused_fitting", format!("after truncate: request needing {} bytes at offset {} refused although capacity is {}", need_lo, start, cap));
                        }
                    }
                }
                self.obs(format!("err:{}", err_kind(&e)), None, None)
            }
        }
    }

    /// Policy oracle for a request that was served although the cursor did not move.
    fn check_policy_ok(&mut self, pre: &Snap, post: &Snap, boff: usize, bcap: usize, need_lo: u64, need_hi: u64) {
        let fl = self.cfg.freelist;
        if fl == 0 {
            self.v("C10", "none_reused", format!("Freelist::None arena served a request from [{},{}) without moving the cursor", boff, boff + bcap));
            return;
        }
        let Some(pos) = pre.nodes.iter().position(|n| n.0 as usize == boff) else {
            self.v("C10", "policy_not_a_segment", format!("slow-path allocation at {} is not the start of any segment of {:?}", boff, pre.nodes));
            return;
        };
        let node = pre.nodes[pos];
        if (node.1 as u64) < need_lo {
            self.v("C10", "policy_too_small", format!("request needing {} bytes served from segment of {} bytes", need_lo, node.1));
        }
        if fl == 1 && pos != 0 {
            self.v("C10", "policy_optimistic", format!("Optimistic served from segment #{} ({} bytes), not the largest ({} bytes)", pos, node.1, pre.nodes[0].1));
        }
        if fl == 2 {
            if let Some(p) = pre.nodes[..pos].iter().position(|n| n.1 as u64 >= need_hi) {
                self.v("C10", "policy_pessimistic", format!("Pessimistic served from segment of {} bytes although the smaller segment #{} ({} bytes) fits {}", node.1, p, pre.nodes[p].1, need_hi));
            }
        }
        // post list = pre list - chosen (+ at most one remainder inside the chosen extent)
        let mut want: Vec<(u32, u32)> = pre.nodes.iter().filter(|n| n.0 != node.0).map(|n| (n.0, n.1)).collect();
        want.sort();
        let mut got: Vec<(u32, u32)> = post.nodes.iter().map(|n| (n.0, n.1)).collect();
        got.sort();
        let extra: Vec<(u32, u32)> = got.iter().filter(|g| !want.contains(g)).cloned().collect();
        let missing: Vec<(u32, u32)> = want.iter().filter(|w| !got.contains(w)).cloned().collect();
        if !missing.is_empty() || extra.len() > 1 {
            self.v("C10", "policy_list_effect", format!("after serving from segment {:?}: list {:?}, expected {:?} plus at most one remainder", node, got, want));
        }
        if let Some(r) = extra.first() {
            self.stats.split_allocs += 1;
            let ext = (node.0 as usize, 8 + node.1 as usize);
            if !((r.0 as usize) >= ext.0 && (r.0 as usize + 8 + r.1 as usize) <= ext.0 + ext.1) {
                self.v("C10", "remainder_outside", format!("remainder segment {:?} is not inside the served segment {:?}", r, node));
            }
            if r.1 < pre.min_seg || r.1 == 0 {
                self.v("C10", "remainder_too_small", format!("remainder of {} bytes re-inserted with minimum segment size {}", r.1, pre.min_seg));
            }
        }
    }

    /// Policy oracle for a failed request: the list must not have held a fitting segment.
    fn check_policy_err(&mut self, pre: &Snap, need_hi: u64) {
        match self.cfg.freelist {
            1 => {
                if let Some(h) = pre.nodes.first() {
                    if h.1 as u64 >= need_hi {
                        self.v("C10", "policy_refused", format!("Optimistic failed a request needing at most {} bytes although the largest segment has {}", need_hi, h.1));
                    }
                }
            }
            2 => {
                if let Some(n) = pre.nodes.iter().find(|n| n.1 as u64 >= need_hi) {
                    self.v("C10", "policy_refused", format!("Pessimistic failed a request needing at most {} bytes although a segment of {} exists", need_hi, n.1));
                }
            }
            _ => {}
        }
    }

    /// Closes every handle and arena value. Returns the number of teardowns observed.
    pub fn close_all(&mut self) -> u64 {
        // borrowed handles first (they borrow arena values), detached so that closing is not a release
        let t0 = ST.with(|st| st.borrow().teardowns);
        while let Some(mut l) = self.live.pop() {
            l.h.0.detach_();
            let r = l.r.clone();
            drop(l);
            if r.bcap > 0 {
                self.kept.push(r);
            }
        }
        for a in self.arenas.iter_mut() {
            *a = None;
        }
        self.arenas.clear();
        hook::set_mode(Mode::Off);
        ST.with(|st| st.borrow().teardowns) - t0
    }

    /// After a copy-on-write / read-only session: what it changed in the file, if anything (an open with a larger
    /// capacity may have appended zero bytes).
    fn nondurable_file_change(&self) -> Option<String> {
        let (Some(d), Some(path)) = (&self.durable, &self.path) else { return None };
        if d.file.is_empty() || (!self.ro && !self.cow) {
            return None;
        }
        let now = std::fs::read(path).unwrap_or_default();
        let m = d.file.len().min(now.len());
        if now.len() < d.file.len() || now[..m] != d.file[..m] || now[m..].iter().any(|b| *b != 0) {
            return Some(format!("a {} session changed the file: {} -> {} bytes, first difference at {:?}", if self.cow && !self.ro { "copy-on-write" } else { "read-only" }, d.file.len(), now.len(), (0..m).find(|i| now[*i] != d.file[*i])));
        }
        None
    }

    fn reopen(&mut self, mode: u8, capk: u8) -> Obs {
        let Some(path) = self.path.clone() else {
            return self.obs("noop".into(), None, None);
        };
        if self.remove_on_drop {
            // the file goes away with the last handle: there is nothing to reopen
            return self.obs("noop".into(), None, None);
        }
        // ---- close
        let a = self.a();
        let closing_writable_durable = !self.ro && !self.cow;
        if closing_writable_durable {
            let s = a.snap();
            self.durable = Some(Durable {
                bytes: self.mem()[..s.allocated as usize].to_vec(),
                snap: s,
                kept: Vec::new(),
                dead_zones: Vec::new(),
                data_offset: a.data_offset(),
                magic: a.magic_version(),
                capacity: a.capacity(),
                rewound: self.rewound,
                file: Vec::new(),
            });
        }
        let n = self.close_all();
        if n != 1 {
            self.v("C13", "teardown_count", format!("closing all handles released the backing store {} times", n));
        }
        if closing_writable_durable {
            let d = self.durable.as_mut().unwrap();
            d.kept = self.kept.clone();
            d.dead_zones = self.dead_zones.clone();
            d.file = std::fs::read(&path).unwrap_or_default();
        } else if let Some(d) = &self.durable {
            // copy-on-write / read-only session ends: nothing of it may have reached the file (an open with a larger
            // capacity may have appended zero bytes)
            if let Some(detail) = self.nondurable_file_change() {
                self.v("C05", "nondurable_session_altered_file", detail);
                self.dead = true;
                return Obs { result: "crash:file_altered".into(), ..Default::default() };
            }
            let d = self.durable.as_ref().unwrap();
            self.kept = d.kept.clone();
            self.dead_zones = d.dead_zones.clone();
            self.rewound = d.rewound;
        }
        let d = self.durable.clone().expect("durable image");
        // ---- reopen
        let mut opts = self.cfg.options().with_read(true);
        let stored_cap = d.capacity as u32;
        // a copy-on-write mapping needs no write access to the file: some sessions open it with a read-only
        // descriptor (the file then cannot be grown: no larger capacity at open, and a growing truncate of such a
        // session has to fail cleanly)
        let cow_ro_fd = mode % 4 == 1 && (self.step + 2 * self.stats.reopens as usize) % 3 == 1 && (d.capacity as u64 + self.cfg.offset) <= std::fs::metadata(&path).map(|m| m.len()).unwrap_or(0);
        let capk = if cow_ro_fd && capk % 4 == 1 { 0 } else { capk };
        opts = match capk % 4 {
            0 => opts.with_capacity(stored_cap),
            1 => opts.with_capacity(stored_cap + 64 + (self.step as u32 % 3) * 4096),
            2 => opts.maybe_capacity(None),
            // smaller than the file, never below the stored cursor
            _ => {
                let cur = d.snap.allocated;
                opts.with_capacity(cur + (stored_cap - cur.min(stored_cap)) * (self.step as u32 % 3) / 3)
            }
        };
        let file_len_before = std::fs::metadata(&path).map(|m| m.len()).unwrap_or(0);
        // create_new on an existing file must be refused and must leave the file alone
        if (self.step + 3 * self.stats.reopens as usize) % 7 == 2 {
            let before = std::fs::read(&path).unwrap_or_default();
            let o2 = if mode % 4 < 2 { opts.with_write(true).with_create_new(true) } else { opts.with_write(true).with_create_new(true) };
            let r = open_file::<A>(o2, mode % 2, &path, false);
            let after = std::fs::read(&path).unwrap_or_default();
            if r.is_ok() {
                self.v("C05", "create_new_opened_existing", "an open with create_new(true) succeeded on an existing arena file".into());
                self.dead = true;
                return Obs { result: "crash:create_new".into(), ..Default::default() };
            }
            if before != after {
                self.v("C05", "create_new_altered_file", format!("a refused open with create_new(true) changed the existing file ({} -> {} bytes)", before.len(), after.len()));
            }
        }
        let via_builder = (self.step + self.stats.reopens as usize) % 3 == 0;
        self.cow_ro_fd = cow_ro_fd;
        let opts = if mode % 4 < 2 && !cow_ro_fd { opts.with_write(true) } else { opts };
        // read-only opens are documented to clear write / truncate / append / create_new of the Options they get
        let opts = if mode % 4 >= 2 {
            match (self.step + self.stats.reopens as usize) % 5 {
                1 => opts.with_write(true).with_truncate(true),
                2 => opts.with_append(true),
                3 => opts.with_write(true),
                _ => opts,
            }
        } else {
            opts
        };
        // `create` on an existing file must open it as it is
        // (not with a read-only descriptor: `create` without write access is an error of OpenOptions itself)
        let opts = if self.step % 4 == 1 && !cow_ro_fd { opts.with_create(true) } else { opts };
        let r: std::io::Result<A> = open_file::<A>(opts, mode, &path, via_builder);
        self.stats.reopens += 1;
        let arena = match r {
            Ok(a) => a,
            Err(e) => {
                self.v("C05", "reopen_failed", format!("reopen mode {} cap-kind {} failed: {} (file length {})", mode % 4, capk % 4, e, file_len_before));
                self.dead = true;
                return Obs { result: "crash:reopen_failed".into(), ..Default::default() };
            }
        };
        self.arenas.push(Some(Box::new(arena)));
        self.ro = mode % 4 >= 2;
        self.cow = mode % 4 == 1 || mode % 4 == 3;
        self.install_hook();
        let a = self.a();
        let s = a.snap();
        // ---- C05 oracle
        if s.allocated != d.snap.allocated || s.discarded != d.snap.discarded || s.min_seg != d.snap.min_seg {
            self.v("C05", "header_changed", format!("after reopen (mode {}): allocated/discarded/min_seg = {}/{}/{}, before close {}/{}/{}", mode % 4, s.allocated, s.discarded, s.min_seg, d.snap.allocated, d.snap.discarded, d.snap.min_seg));
        }
        let stored_fl = self.mem().get(self.cfg.reserved as usize + 1).copied().unwrap_or(255);
        if a.data_offset() != d.data_offset || a.magic_version() != d.magic || stored_fl != self.cfg.freelist {
            self.v("C05", "meta_changed", format!("after reopen: data_offset {} (was {}), magic {} (was {}), stored freelist byte {} (was {})", a.data_offset(), d.data_offset, a.magic_version(), d.magic, stored_fl, self.cfg.freelist));
        }
        if s.nodes != d.snap.nodes {
            self.v("C05", "freelist_changed", format!("free list after reopen {:?}, before close {:?}", s.nodes, d.snap.nodes));
        }
        let mem = self.mem();
        let n = (d.snap.allocated as usize).min(mem.len());
        let res_n = self.reserved_pat.len();
        if mem[..res_n.min(n)] != d.bytes[..res_n.min(n)] {
            self.v("C05", "reserved_changed", "reserved prefix differs after reopen".into());
        }
        for r in self.kept.clone() {
            if r.off + r.cap <= n && mem[r.off..r.off + r.cap] != r.bytes[..] {
                self.v("C05", "bytes_changed", format!("handed-out range [{},{}) differs after reopen (mode {})", r.off, r.off + r.cap, mode % 4));
            }
        }
        // the capacity asked for is the capacity of the session
        let asked = match capk % 4 {
            0 => Some(stored_cap as usize),
            3 => Some((d.snap.allocated + (stored_cap - d.snap.allocated.min(stored_cap)) * (self.step as u32 % 3) / 3) as usize),
            _ => None,
        };
        if let Some(c) = asked {
            if a.capacity() != c {
                self.v("C05", "capacity", format!("reopen (mode {}) with capacity {}: capacity() is {}", mode % 4, c, a.capacity()));
            }
        }
        // C16: capacity() is the number of bytes the session really maps - what was asked for when the file can be
        // grown (writable and copy-on-write opens), at most what the file holds when it cannot (read-only opens),
        // the whole file when nothing was asked for
        {
            let in_file = (file_len_before as usize).saturating_sub(self.cfg.offset as usize);
            let larger = (stored_cap + 64 + (self.step as u32 % 3) * 4096) as usize;
            let want = match (capk % 4, mode % 4 >= 2) {
                (1, false) => Some(larger),
                (1, true) => Some(larger.min(in_file)),
                (2, _) => Some(in_file),
                _ => None,
            };
            if let Some(w) = want {
                if a.capacity() != w {
                    self.v("C16", "capacity_after_reopen", format!("reopen (mode {}, capacity {}) of a file holding {} bytes behind the offset: capacity() is {}, expected {}", mode % 4, if capk % 4 == 1 { format!("{}", larger) } else { "absent".into() }, in_file, a.capacity(), w));
                    // the mapping may not be backed by the file: touching it could kill the process
                    self.dead = true;
                    return Obs { result: "crash:capacity".into(), ..Default::default() };
                }
            }
        }
        self.data_offset = a.data_offset();
        // ---- C16: descriptive accessors report the mode the arena was opened with
        let want_ro = mode % 4 >= 2;
        if a.read_only() != want_ro || !a.unify() || !a.is_map() || !a.is_ondisk() || a.is_inmemory() || a.is_map_anon() || !a.is_map_file() || a.path().is_none() || a.version() != 0 || a.reserved_bytes() != self.cfg.reserved as usize || a.reserved_slice().len() != self.cfg.reserved as usize {
            self.v("C16", "accessors_after_reopen", format!("after reopen (mode {}): read_only {} unify {} is_map {} is_ondisk {} is_map_anon {} is_map_file {} path {} version {} reserved {}", mode % 4, a.read_only(), a.unify(), a.is_map(), a.is_ondisk(), a.is_map_anon(), a.is_map_file(), a.path().is_some(), a.version(), a.reserved_bytes()));
        }
        if a.remaining() != a.capacity().saturating_sub(a.allocated()) {
            self.v("C16", "remaining", "remaining() != capacity() - allocated() after reopen".into());
        }
        self.obs("ok".into(), None, None)
    }

    fn truncate(&mut self, n: u32) -> Obs {
        let shared = self.live_arenas() != 1 || self.live.iter().any(|l| l.r.owned);
        if shared && !self.shared_truncate {
            return self.obs("noop".into(), None, None);
        }
        // truncate takes &mut self: no borrowed handle can be alive across it; what they refer to stays
        // allocated as detached data
        let mut i = 0;
        while i < self.live.len() {
            if self.live[i].r.owned {
                i += 1;
                continue;
            }
            let mut l = self.live.remove(i);
            l.h.0.detach_();
            let r = l.r.clone();
            drop(l);
            if r.bcap > 0 {
                self.kept.push(r);
            }
        }
        let idx = self.arenas.iter().position(|a| a.is_some()).unwrap();
        let pre = self.a().snap();
        let pre_cap = self.a().capacity();
        let pre_bytes = self.mem()[..pre.allocated as usize].to_vec();
        let cow_file_before = if self.cow && !self.ro { self.path.as_ref().and_then(|p| std::fs::read(p).ok()) } else { None };
        let r = {
            let a = self.arenas[idx].as_mut().unwrap();
            a.truncate_(n as usize)
        };
        let Some(r) = r else {
            return self.obs("noop".into(), None, None);
        };
        self.stats.truncates += 1;
        if let Err(e) = &r {
            // before anything is read through the arena: a failed truncate must not have released the mapping that
            // every arena value and handle points into (judged with mincore on the base address, nothing is touched)
            let a = self.arenas[idx].as_ref().unwrap();
            if self.path.is_some() || self.cfg.backend == crate::arena::Backend::Anon {
                let mapped = unsafe {
                    let page = (a.raw_ptr() as usize) & !4095;
                    let mut vec = [0u8; 1];
                    libc::mincore(page as *mut libc::c_void, 1, vec.as_mut_ptr()) == 0
                };
                if !mapped {
                    self.v("C13", "early_teardown", format!("[failed-truncate] truncate({}) failed ({}) and released the backing memory while {} arena values / handles are alive", n, e, self.live_arenas() + self.live.len()));
                    self.dead = true;
                    return Obs { result: "crash:unmapped".into(), ..Default::default() };
                }
            }
        }
        self.install_hook();
        if shared && r.is_ok() {
            // Every other arena value and every owned handle must still refer to the memory the arena now uses.
            // Judged on addresses only: nothing is dereferenced.
            let a = self.arenas[idx].as_ref().unwrap();
            let (base, cap) = (a.raw_ptr() as usize, a.capacity());
            let mut stale: Vec<String> = Vec::new();
            for (j, o) in self.arenas.iter().enumerate() {
                if let Some(o) = o {
                    if j != idx && o.raw_ptr() as usize != base {
                        stale.push(format!("arena value #{} still uses the old mapping", j));
                    }
                }
            }
            for l in self.live.iter_mut() {
                if l.r.cap > 0 {
                    let p = l.h.0.wptr() as usize;
                    if p < base || p + l.r.cap > base + cap {
                        stale.push(format!("owned handle id={} [{},{}) points outside the arena's memory", l.r.id, l.r.off, l.r.off + l.r.cap));
                    }
                }
            }
            if !stale.is_empty() {
                self.v("C18", "dangling_after_truncate", format!("[shared] truncate({}) with {} arena values and {} owned handles alive replaced the backing memory under them: {}", n, self.live_arenas(), self.live.len(), stale.join("; ")));
                self.dead = true;
                return Obs { result: "crash:dangling".into(), ..Default::default() };
            }
        }
        let a = self.a();
        let post = a.snap();
        if self.ro {
            if r.is_ok() || a.capacity() != pre_cap || post != pre {
                self.v("C18", "readonly_truncate", format!("truncate on a read-only arena: {:?}, capacity {} -> {}", r.as_ref().err().map(|e| e.to_string()), pre_cap, a.capacity()));
            }
            return self.obs("err:readonly".into(), None, None);
        }
        if let Err(e) = &r {
            if self.cow && self.cow_ro_fd && (n as usize) > pre_cap {
                // the file cannot be grown through a read-only descriptor: the call may fail, but then it fails
                // without effect - same state, and the mapping every arena value and handle points into still exists
                let a = self.a();
                if a.capacity() != pre_cap || a.snap() != pre {
                    self.v("C18", "failed_truncate_had_effect", format!("truncate({}) failed ({}) but changed the arena: capacity {} -> {}", n, e, pre_cap, a.capacity()));
                }
                return self.obs("err:io".into(), None, None);
            }
            self.v("C18", "truncate_failed", format!("truncate({}) failed: {}", n, e));
            return self.obs("err:io".into(), None, None);
        }
        let want = (n as usize).max(pre.allocated as usize);
        if a.capacity() != want {
            self.v("C18", "capacity", format!("truncate({}) with allocated {}: capacity() is {}, expected {}", n, pre.allocated, a.capacity(), want));
        }
        if self.cow {
            // a copy-on-write session must stay one: nothing of it reaches the file (its length may grow, as at open)
            if let (Some(before), Some(p)) = (&cow_file_before, &self.path) {
                let after = std::fs::read(p).unwrap_or_default();
                let m = before.len().min(after.len());
                if after.len() < before.len() || before[..m] != after[..m] {
                    self.v("C18", "cow_file_changed", format!("[cow-session] truncate({}) of an arena opened with map_copy changed the file ({} -> {} bytes, first difference at {:?})", n, before.len(), after.len(), (0..m).find(|i| before[*i] != after[*i])));
                }
            }
        }
        let tag = if self.cow { "[cow-session] " } else { "" };
        if post != pre {
            self.v("C18", "state_changed", format!("{}truncate({}) changed allocator state: {} -> {}", tag, n, pre.to_json(), post.to_json()));
        }
        if self.opts.check_reserved && a.reserved_slice() != &self.reserved_pat[..] {
            self.v("C16", "reserved_written", format!("truncate({}) changed the reserved prefix", n));
        }
        let mem = self.mem();
        let m = (pre.allocated as usize).min(mem.len());
        if mem[..m] != pre_bytes[..m] {
            let i = (0..m).find(|i| mem[*i] != pre_bytes[*i]).unwrap();
            self.v("C18", "bytes_changed", format!("{}truncate({}) changed byte {} below allocated ({})", tag, n, i, pre.allocated));
        }
        // C16, cross-backend byte equality: the bytes a *growing* truncate adds are zero on an anonymous-map arena by
        // the guarantee of the OS (fresh mapping), so a Vec-backed arena driven by the same history must show
        // zeroes there too. (The cross-backend histories themselves leave truncate out, see diff.rs.)
        if self.cfg.backend == Backend::Vec && mem.len() > pre_cap {
            if let Some(k) = (pre_cap..mem.len()).find(|k| mem[*k] != 0) {
                self.v("C16", "backend_bytes", format!("[grown by truncate] truncate({}) grew a Vec-backed arena from {} to {} bytes and byte {} of the new region is {:#x}; the same history on an anonymous map leaves zero there", n, pre_cap, mem.len(), k, mem[k]));
            }
        }
        self.obs("ok".into(), None, None)
    }

    /// Final teardown with the C13 backing-store oracle. `order` permutes the drops.
    pub fn finish(&mut self, rng_order: u64) {
        if self.dead {
            // never run Drop on a possibly corrupted arena
            hook::set_mode(Mode::Off);
            for l in self.live.drain(..) {
                std::mem::forget(l);
            }
            for a in self.arenas.drain(..) {
                std::mem::forget(a);
            }
            return;
        }
        if self.late_remove && !self.remove_on_drop && self.path.is_some() {
            // C13: "a file marked remove-on-drop disappears exactly then" — whatever kind of session marks it
            self.a().remove_on_drop(true);
            self.remove_on_drop = true;
        }
        let t0 = ST.with(|st| st.borrow().teardowns);
        let path = self.path.clone();
        // A file-backed arena can still be observed after its last arena value is gone: through a second,
        // read-only mapping of the same file (MAP_SHARED, coherent with the first). It is used to judge what the
        // owned handles that outlive every arena value release.
        // (not in a copy-on-write session: its releases go to private pages that a second mapping never sees)
        let observer: Option<A> = match (&path, self.remove_on_drop, self.ro || self.cow) {
            (Some(p), false, false) => {
                hook::set_mode(Mode::Off);
                let o = unsafe { self.cfg.options().with_capacity(self.a().capacity() as u32).with_read(true).map::<A, _>(p) }.ok();
                hook::set_mode(Mode::St);
                o
            }
            _ => None,
        };
        // borrowed handles must go before the arena values they borrow
        let mut i = 0;
        while i < self.live.len() {
            if self.live[i].arena_idx.is_some() {
                let mut l = self.live.remove(i);
                l.h.0.detach_();
                drop(l);
            } else {
                i += 1;
            }
        }
        // interleave arena values and owned handles in a seed-chosen order
        let mut order = rng_order;
        loop {
            let na = self.live_arenas();
            let nh = self.live.len();
            if na + nh == 0 {
                break;
            }
            let before = ST.with(|st| st.borrow().teardowns);
            let pick = (order % (na + nh) as u64) as usize;
            order = crate::rng::mix(order);
            if pick < na {
                let idx = self.arenas.iter().enumerate().filter(|(_, a)| a.is_some()).nth(pick).unwrap().0;
                self.arenas[idx] = None;
            } else {
                let mut l = self.live.remove(pick - na);
                let detach = order & 1 == 0;
                if detach {
                    l.h.0.detach_();
                }
                if let Some(id) = l.r.drop_id {
                    self.dropped_ids.push(id);
                }
                let (boff, bcap) = (l.r.boff, l.r.bcap);
                let pre = observer.as_ref().map(|o| o.snap());
                drop(l);
                if let (Some(o), Some(pre)) = (observer.as_ref(), pre) {
                    let post = o.snap();
                    if detach {
                        if pre != post {
                            self.v("C13", "detached_released", format!("dropping a detached owned handle during teardown changed the arena: {} -> {}", pre.to_json(), post.to_json()));
                        }
                    } else {
                        self.check_release("drop of an owned handle during teardown", &pre, &post, boff, bcap);
                    }
                }
            }
            let after = ST.with(|st| st.borrow().teardowns);
            let remaining_values = self.live_arenas() + self.live.iter().filter(|l| l.r.embeds == 1).count();
            let maybe = self.live.iter().filter(|l| l.r.embeds == 2).count();
            if after != before && remaining_values > 0 {
                self.v("C13", "early_teardown", format!("backing store released while {} arena values / owned handles are alive", remaining_values));
                self.dead = true;
                break;
            }
            let _ = maybe;
            if let Some(p) = &path {
                let exists = p.exists();
                if self.remove_on_drop && remaining_values > 0 && !exists {
                    self.v("C13", "file_removed_early", "remove_on_drop file disappeared before the last handle was dropped".into());
                }
            }
        }
        hook::set_mode(Mode::Off);
        drop(observer);
        let total = ST.with(|st| st.borrow().teardowns) - t0;
        if !self.dead && total != 1 {
            self.v("C13", "teardown_count", format!("backing store released {} times", total));
        }
        if !self.dead && !self.remove_on_drop {
            if let Some(detail) = self.nondurable_file_change() {
                self.v("C05", "nondurable_session_altered_file", detail);
            }
        }
        if let Some(p) = &path {
            if !self.dead && self.remove_on_drop && p.exists() {
                self.v("C13", "file_not_removed", "remove_on_drop file still exists after the last drop".into());
            }
            if !self.dead && !self.remove_on_drop && !p.exists() {
                self.v("C13", "file_removed", "file disappeared although remove_on_drop was not set".into());
            }
        }
        if self.dead {
            for l in self.live.drain(..) {
                std::mem::forget(l);
            }
            for a in self.arenas.drain(..) {
                std::mem::forget(a);
            }
        }
    }
}

impl<A: Ar> Drop for Exec<A> {
    fn drop(&mut self) {
        hook::set_mode(Mode::Off);
        if self.dead {
            for l in self.live.drain(..) {
                std::mem::forget(l);
            }
            for a in self.arenas.drain(..) {
                std::mem::forget(a);
            }
        } else {
            for mut l in self.live.drain(..) {
                l.h.0.detach_();
                drop(l);
            }
        }
    }
}
