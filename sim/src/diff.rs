//! Differential scenarios: the same history on two or three executors in lock-step.
//!  * C11: sync::Arena vs unsync::Arena (the single-threaded arena is the executable reference model)
//!  * C17: cleared arena vs freshly constructed arena
//!  * C16: Vec- / anonymous-map- / file-backed arenas with the unified layout, byte-identical memory
//!  * C16: configuration sweep (data offset, construction failure, descriptive accessors)

use crate::arena::*;
use crate::exec::*;
use crate::gen::{self, Profile, View};
use crate::hook::{self, Mode, ST};
use crate::ops::*;
use crate::rng::Rng;
use rarena_allocator::{sync, unsync, Allocator, Options};
use serde_json::{json, Value};
use std::path::PathBuf;

#[derive(Default, Clone, Debug)]
pub struct DiffOut {
    pub viols: Vec<Violation>,
    pub ops: Vec<Op>,
    pub stats: ExecStats,
    pub steps: u64,
    pub trace_hash: u64,
    pub spurious_fired: u64,
    pub skipped: bool,
    pub extra: u64,
}

fn path_for(tag: u64, k: u64) -> PathBuf {
    crate::st::scratch_dir().join(format!("d{}-{}.arena", tag, k))
}

fn view_of<A: Ar>(e: &Exec<A>) -> View {
    let a = e.a();
    let s = a.snap();
    let mut top = None;
    for (i, l) in e.live.iter().enumerate() {
        if l.r.bcap > 0 && l.r.boff + l.r.bcap == s.allocated as usize {
            top = Some(i);
        }
    }
    View::from_snap(&s, a.capacity(), a.data_offset(), e.live.len(), e.kept.len(), e.live_arenas(), e.ro, top)
}

fn st_totals(out: &mut DiffOut) {
    ST.with(|st| {
        let st = st.borrow();
        out.steps = st.total_steps;
        out.trace_hash = st.trace_hash;
        out.spurious_fired = st.spurious_fired;
    });
}

/// The hook context is thread-local and describes one arena at a time: re-point it before stepping an executor.
fn focus<A: Ar>(e: &mut Exec<A>) {
    if !e.dead && e.live_arenas() > 0 {
        e.install_hook();
    }
}

pub struct DiffSpec {
    pub cfg: Cfg,
    pub spurious_seed: Option<u64>,
}

impl DiffSpec {
    pub fn to_json(&self) -> Value {
        json!({"cfg": self.cfg.to_json(), "spurious_seed": self.spurious_seed})
    }
    pub fn from_json(v: &Value) -> Option<DiffSpec> {
        Some(DiffSpec { cfg: Cfg::from_json(v.get("cfg")?)?, spurious_seed: v.get("spurious_seed").and_then(|x| x.as_u64()) })
    }
}

// ------------------------------------------------------------------ C11

pub fn run_c11(spec: &DiffSpec, tag: u64, mut source: impl FnMut(&View, &Cfg) -> Option<Op>) -> DiffOut {
    let mut out = DiffOut::default();
    ST.with(|st| st.borrow_mut().reset());
    let mut c_sync = spec.cfg;
    c_sync.sync = true;
    let mut c_unsync = spec.cfg;
    c_unsync.sync = false;
    let file = spec.cfg.backend == Backend::File;
    let p1 = if file { Some(path_for(tag, 1)) } else { None };
    let p2 = if file { Some(path_for(tag, 2)) } else { None };
    let o1 = ExecOpts { check_reserved: true, spurious: spec.spurious_seed.map(|s| (s, 1, 6)), crash_snaps: None };
    let o2 = ExecOpts { check_reserved: true, spurious: None, crash_snaps: None };
    let e1 = Exec::<sync::Arena>::new(c_sync, p1.clone(), o1);
    let e2 = Exec::<unsync::Arena>::new(c_unsync, p2.clone(), o2);
    let (mut e1, mut e2) = match (e1, e2) {
        (Ok(a), Ok(b)) => (a, b),
        (Err(_), Err(_)) => {
            out.skipped = true;
            return out;
        }
        (a, b) => {
            out.viols.push(Violation { prop: "C11", class: "construction", detail: format!("construction outcome differs: sync ok={} unsync ok={}", a.is_ok(), b.is_ok()), op: 0 });
            return out;
        }
    };
    let mut i = 0usize;
    loop {
        if e1.dead || e2.dead {
            break;
        }
        let v = view_of(&e2);
        let Some(op) = source(&v, &c_unsync) else { break };
        out.ops.push(op.clone());
        focus(&mut e1);
        let a = e1.step(&op);
        focus(&mut e2);
        let b = e2.step(&op);
        if a != b {
            out.viols.push(Violation { prop: "C11", class: "divergence", detail: format!("op #{} {:?}: sync observed {} but unsync observed {}", i, op, a.to_json(), b.to_json()), op: i });
            break;
        }
        i += 1;
    }
    // violations of other properties found on either side are kept as side signals
    out.viols.extend(e1.viols.iter().filter(|v| v.prop != "C11").cloned());
    out.viols.extend(e2.viols.iter().filter(|v| v.prop != "C11").cloned());
    out.stats = e2.stats.clone();
    focus(&mut e1);
    e1.finish(1);
    focus(&mut e2);
    e2.finish(1);
    st_totals(&mut out);
    drop(e1);
    drop(e2);
    for p in [p1, p2].into_iter().flatten() {
        let _ = std::fs::remove_file(p);
    }
    out
}

pub fn gen_c11(seed: u64, run: u64) -> (DiffSpec, DiffOut) {
    let p = gen::profile("C11");
    let mut crng = Rng::derive(seed, run, 1);
    let cfg = gen::gen_cfg(&mut crng, &p);
    let n = gen::history_len(&mut crng, &p);
    let spec = DiffSpec { cfg, spurious_seed: if crng.chance(1, 2) { Some(crng.next_u64()) } else { None } };
    let mut orng = Rng::derive(seed, run, 2);
    let mut count = 0;
    let out = run_c11(&spec, run, |v, c| {
        if count >= n {
            return None;
        }
        count += 1;
        Some(gen::next_op(&mut orng, &p, c, v))
    });
    (spec, out)
}

pub fn replay_c11(spec: &DiffSpec, ops: &[Op], tag: u64) -> DiffOut {
    let mut i = 0;
    run_c11(spec, tag, |_, _| {
        let o = ops.get(i).cloned();
        i += 1;
        o
    })
}

// ------------------------------------------------------------------ C17: cleared vs fresh

fn run_clear_generic<A: Ar>(spec: &DiffSpec, tag: u64, clear_at: usize, mut source: impl FnMut(&View, &Cfg) -> Option<Op>) -> DiffOut {
    let mut out = DiffOut::default();
    ST.with(|st| st.borrow_mut().reset());
    let file = spec.cfg.backend == Backend::File;
    let p1 = if file { Some(path_for(tag, 1)) } else { None };
    let p2 = if file { Some(path_for(tag, 2)) } else { None };
    let mk = |s: Option<u64>| ExecOpts { check_reserved: true, spurious: s.map(|s| (s, 1, 8)), crash_snaps: None };
    let Ok(mut e1) = Exec::<A>::new(spec.cfg, p1.clone(), mk(spec.spurious_seed)) else {
        out.skipped = true;
        return out;
    };
    let mut e2: Option<Exec<A>> = None;
    let mut i = 0usize;
    loop {
        if e1.dead || e2.as_ref().map(|e| e.dead).unwrap_or(false) {
            break;
        }
        if i == clear_at {
            focus(&mut e1);
            e1.step(&Op::Clear);
            if e1.dead {
                break;
            }
            // fresh arena: same options, the minimum segment size currently in force
            let mut c2 = spec.cfg;
            c2.min_seg = e1.a().snap().min_seg;
            // ... and the capacity currently in force (a truncate may have changed it)
            c2.cap = e1.a().capacity() as u32;
            match Exec::<A>::new(c2, p2.clone(), mk(None)) {
                Ok(e) => e2 = Some(e),
                Err(_) => {
                    out.skipped = true;
                    break;
                }
            }
            let e2r = e2.as_mut().unwrap();
            focus(&mut e1);
            let a = e1.obs("clear".into(), None, None);
            focus(e2r);
            let b = e2r.obs("clear".into(), None, None);
            if a != b {
                out.viols.push(Violation { prop: "C17", class: "clear_vs_fresh", detail: format!("right after clear(): cleared arena {} but fresh arena {}", a.to_json(), b.to_json()), op: i });
                break;
            }
            let m1 = unsafe { std::slice::from_raw_parts(e1.a().raw_ptr(), e1.a().capacity()) };
            let m2 = unsafe { std::slice::from_raw_parts(e2r.a().raw_ptr(), e2r.a().capacity()) };
            let d0 = e1.a().data_offset();
            if m1[d0..] != m2[d0..] || e1.a().reserved_slice() != e2r.a().reserved_slice() {
                out.viols.push(Violation { prop: "C17", class: "clear_vs_fresh", detail: "data area / reserved prefix of the cleared arena differ from a fresh arena".into(), op: i });
                break;
            }
            out.extra += 1;
        }
        let v = view_of(e2.as_ref().unwrap_or(&e1));
        let _ = &v;
        let v = match &e2 {
            Some(e) => view_of(e),
            None => view_of(&e1),
        };
        let Some(op) = source(&v, &spec.cfg) else { break };
        out.ops.push(op.clone());
        focus(&mut e1);
        let a = e1.step(&op);
        if let Some(e2r) = e2.as_mut() {
            focus(e2r);
            let b = e2r.step(&op);
            if a != b {
                out.viols.push(Violation { prop: "C17", class: "clear_vs_fresh", detail: format!("op #{} {:?} after clear(): cleared arena observed {} but fresh arena observed {}", i, op, a.to_json(), b.to_json()), op: i });
                break;
            }
        }
        i += 1;
    }
    out.viols.extend(e1.viols.iter().filter(|v| v.class != "clear_vs_fresh").cloned());
    out.stats = e1.stats.clone();
    focus(&mut e1);
    e1.finish(1);
    if let Some(mut e) = e2 {
        focus(&mut e);
        e.finish(1);
    }
    st_totals(&mut out);
    drop(e1);
    for p in [p1, p2].into_iter().flatten() {
        let _ = std::fs::remove_file(p);
    }
    out
}

pub fn run_clear(spec: &DiffSpec, tag: u64, clear_at: usize, source: impl FnMut(&View, &Cfg) -> Option<Op>) -> DiffOut {
    if spec.cfg.sync {
        run_clear_generic::<sync::Arena>(spec, tag, clear_at, source)
    } else {
        run_clear_generic::<unsync::Arena>(spec, tag, clear_at, source)
    }
}

fn clear_profile() -> Profile {
    let mut p = gen::profile("C17");
    p.w[gen::W_CLEAR] = 0;
    p.w[gen::W_REWIND] = 2;
    // extra arena values only change refs(), which is not part of "indistinguishable from a fresh arena"
    p.w[gen::W_CLONE] = 0;
    p.w[gen::W_DROPARENA] = 0;
    // one writable session: a fresh arena has no earlier sessions to compare with
    p.w[gen::W_REOPEN] = 0;
    p
}

pub fn gen_clear(seed: u64, run: u64) -> (DiffSpec, usize, DiffOut) {
    let p = clear_profile();
    let mut crng = Rng::derive(seed, run, 1);
    let cfg = gen::gen_cfg(&mut crng, &p);
    let n = gen::history_len(&mut crng, &p) + 2;
    let clear_at = crng.below(n) as usize;
    let spec = DiffSpec { cfg, spurious_seed: if cfg.sync && crng.chance(1, 2) { Some(crng.next_u64()) } else { None } };
    let mut orng = Rng::derive(seed, run, 2);
    let mut count = 0;
    let out = run_clear(&spec, run, clear_at, |v, c| {
        if count >= n {
            return None;
        }
        count += 1;
        Some(gen::next_op(&mut orng, &p, c, v))
    });
    (spec, clear_at, out)
}

pub fn replay_clear(spec: &DiffSpec, clear_at: usize, ops: &[Op], tag: u64) -> DiffOut {
    let mut i = 0;
    run_clear(spec, tag, clear_at, |_, _| {
        let o = ops.get(i).cloned();
        i += 1;
        o
    })
}

// ------------------------------------------------------------------ C16: three backends side by side

fn run_backends_generic<A: Ar>(spec: &DiffSpec, tag: u64, mut source: impl FnMut(&View, &Cfg) -> Option<Op>) -> DiffOut {
    let mut out = DiffOut::default();
    ST.with(|st| st.borrow_mut().reset());
    let mut cfgs = [spec.cfg; 3];
    cfgs[0].backend = Backend::Vec;
    cfgs[1].backend = Backend::Anon;
    cfgs[2].backend = Backend::File;
    for c in cfgs.iter_mut() {
        c.unify = true;
    }
    let p3 = Some(path_for(tag, 3));
    let mk = || ExecOpts { check_reserved: true, spurious: None, crash_snaps: None };
    let es = (Exec::<A>::new(cfgs[0], None, mk()), Exec::<A>::new(cfgs[1], None, mk()), Exec::<A>::new(cfgs[2], p3.clone(), mk()));
    let (mut e0, mut e1, mut e2) = match es {
        (Ok(a), Ok(b), Ok(c)) => (a, b, c),
        (Err(_), Err(_), Err(_)) => {
            out.skipped = true;
            if let Some(p) = p3 {
                let _ = std::fs::remove_file(p);
            }
            return out;
        }
        (a, b, c) => {
            out.viols.push(Violation { prop: "C16", class: "construction", detail: format!("construction outcome differs between backends: vec ok={} anon ok={} file ok={} (cap {}, reserved {})", a.is_ok(), b.is_ok(), c.is_ok(), spec.cfg.cap, spec.cfg.reserved), op: 0 });
            if let Some(p) = p3 {
                let _ = std::fs::remove_file(p);
            }
            return out;
        }
    };
    let mut i = 0usize;
    loop {
        let m0 = unsafe { std::slice::from_raw_parts(e0.a().raw_ptr(), e0.a().capacity()) };
        let m1 = unsafe { std::slice::from_raw_parts(e1.a().raw_ptr(), e1.a().capacity()) };
        let m2 = unsafe { std::slice::from_raw_parts(e2.a().raw_ptr(), e2.a().capacity()) };
        // every byte, the header included (its last 4 bytes used to be implicit padding with stack garbage)
        let same = |x: &[u8], y: &[u8]| x == y;
        if !same(m0, m1) || !same(m0, m2) {
            let k = (0..m0.len().min(m1.len()).min(m2.len())).find(|k| m0[*k] != m1[*k] || m0[*k] != m2[*k]);
            out.viols.push(Violation { prop: "C16", class: "backend_bytes", detail: format!("after {} ops memory() differs between backends at byte {:?} (lengths {}/{}/{})", i, k, m0.len(), m1.len(), m2.len()), op: i });
            break;
        }
        if e0.dead || e1.dead || e2.dead {
            break;
        }
        let v = view_of(&e0);
        let Some(op) = source(&v, &cfgs[0]) else { break };
        out.ops.push(op.clone());
        focus(&mut e0);
        let a = e0.step(&op);
        focus(&mut e1);
        let b = e1.step(&op);
        focus(&mut e2);
        let c = e2.step(&op);
        if a != b || a != c {
            out.viols.push(Violation { prop: "C16", class: "backend_divergence", detail: format!("op #{} {:?}: vec {} / anon {} / file {}", i, op, a.to_json(), b.to_json(), c.to_json()), op: i });
            break;
        }
        i += 1;
    }
    out.viols.extend(e0.viols.iter().cloned());
    out.stats = e0.stats.clone();
    focus(&mut e0);
    e0.finish(1);
    focus(&mut e1);
    e1.finish(1);
    focus(&mut e2);
    e2.finish(1);
    st_totals(&mut out);
    drop(e2);
    if let Some(p) = p3 {
        let _ = std::fs::remove_file(p);
    }
    out
}

pub fn run_backends(spec: &DiffSpec, tag: u64, source: impl FnMut(&View, &Cfg) -> Option<Op>) -> DiffOut {
    if spec.cfg.sync {
        run_backends_generic::<sync::Arena>(spec, tag, source)
    } else {
        run_backends_generic::<unsync::Arena>(spec, tag, source)
    }
}

pub fn gen_backends(seed: u64, run: u64) -> (DiffSpec, DiffOut) {
    let mut p = gen::profile("C16");
    // truncate re-creates the Vec / anonymous buffer (zero above the cursor) but only remaps a file (stale bytes
    // above the cursor stay): byte equality of the *whole* memory() is not demanded across a truncate
    p.w[gen::W_TRUNC] = 0;
    let mut crng = Rng::derive(seed, run, 1);
    let cfg = gen::gen_cfg(&mut crng, &p);
    let n = gen::history_len(&mut crng, &p);
    let spec = DiffSpec { cfg, spurious_seed: None };
    let mut orng = Rng::derive(seed, run, 2);
    let mut count = 0;
    let out = run_backends(&spec, run, |v, c| {
        if count >= n {
            return None;
        }
        count += 1;
        Some(gen::next_op(&mut orng, &p, c, v))
    });
    (spec, out)
}

pub fn replay_backends(spec: &DiffSpec, ops: &[Op], tag: u64) -> DiffOut {
    let mut i = 0;
    run_backends(spec, tag, |_, _| {
        let o = ops.get(i).cloned();
        i += 1;
        o
    })
}

// ------------------------------------------------------------------ C16: configuration sweep

fn sweep_one<A: Ar>(reserved: u32, unify: bool, backend: Backend, cap: u32, viols: &mut Vec<Violation>, n: &mut u64, tag: u64) {
    hook::set_mode(Mode::Off);
    *n += 1;
    let cfg = Cfg { sync: A::SYNC, backend, unify, freelist: 1 + (reserved % 2) as u8, cap, reserved, min_seg: 8 + reserved % 5, max_align: 8, retries: 3, magic: (reserved as u16).wrapping_mul(7), offset: 0 };
    let opts = cfg.options();
    let eff_unify = cfg.effective_unify();
    let expect_off = if eff_unify { opts.data_offset_unify::<A>() } else { opts.data_offset::<A>() };
    let path = if backend == Backend::File { Some(path_for(tag, 9)) } else { None };
    let r = build::<A>(&cfg, path.as_deref());
    let what = format!("{} backend={:?} unify={} reserved={} capacity={}", if A::SYNC { "sync" } else { "unsync" }, backend, unify, reserved, cap);
    let mut bad = |class: &'static str, d: String| {
        if viols.len() < 8 {
            viols.push(Violation { prop: "C16", class, detail: format!("{}: {}", what, d), op: 0 });
        }
    };
    let fits = cap as usize >= expect_off;
    match r {
        Ok(a) => {
            if !fits {
                bad("construction", format!("construction succeeded although the prefix needs {} bytes", expect_off));
            }
            if a.data_offset() != expect_off {
                bad("data_offset", format!("data_offset() = {} but Options says {}", a.data_offset(), expect_off));
            }
            let ok = a.capacity() == cap as usize
                && a.unify() == eff_unify
                && !a.read_only()
                && a.is_map() == (backend != Backend::Vec)
                && a.is_ondisk() == (backend == Backend::File)
                && a.is_inmemory() == (backend != Backend::File)
                && a.is_map_anon() == (backend == Backend::Anon)
                && a.is_map_file() == (backend == Backend::File)
                && a.path().is_some() == (backend == Backend::File)
                && a.magic_version() == cfg.magic
                && a.version() == 0
                && a.page_size() == unsafe { libc::sysconf(libc::_SC_PAGESIZE) } as usize
                && a.minimum_segment_size() == cfg.min_seg
                && a.reserved_bytes() == reserved as usize
                && a.reserved_slice().len() == reserved as usize
                && a.allocated() == expect_off
                && a.remaining() == cap as usize - expect_off
                && a.discarded() == 0
                && a.refs() == 1;
            if !ok {
                bad("accessors", format!("descriptive accessors disagree with the options: capacity {} unify {} ro {} is_map {} is_ondisk {} is_map_anon {} is_map_file {} path {} magic {} version {} page {} min_seg {} reserved {} allocated {} remaining {}", a.capacity(), a.unify(), a.read_only(), a.is_map(), a.is_ondisk(), a.is_map_anon(), a.is_map_file(), a.path().is_some(), a.magic_version(), a.version(), a.page_size(), a.minimum_segment_size(), a.reserved_bytes(), a.allocated(), a.remaining()));
            }
            if a.reserved_slice().iter().any(|b| *b != 0) {
                bad("reserved", "reserved prefix of a new arena is not zero".into());
            }
            // first allocation: first suitably aligned offset at or after data_offset
            if cap as usize >= expect_off + 16 {
                if let Ok(mut h) = unsafe { a.alloc::<u64>() } {
                    use rarena_allocator::Buffer;
                    let want = (expect_off + 7) & !7;
                    if h.offset() != want {
                        bad("first_offset", format!("first alloc::<u64>() at {} instead of {}", h.offset(), want));
                    }
                    unsafe { h.detach() };
                }
            }
            drop(a);
        }
        Err(e) => {
            if fits && cap > 0 {
                bad("construction", format!("construction failed ({:?}) although capacity {} holds the prefix of {} bytes", e, cap, expect_off));
            }
            match &e {
                BuildErr::Arena(rarena_allocator::Error::InsufficientSpace { .. }) => {}
                BuildErr::Io(io) if io.kind() == std::io::ErrorKind::InvalidInput => {}
                other => bad("construction", format!("construction failed with an unexpected error: {:?}", other)),
            }
        }
    }
    if let Some(p) = path {
        let _ = std::fs::remove_file(p);
    }
}

/// All combinations for one reserved value.
/// Reserved sizes at the edges of the u32 range with small capacities: the prefix cannot fit, construction has to
/// fail with an error - no panic, no wrap-around of the prefix computation (an out-of-bounds write kills the worker).
pub const SWEEP_BOUNDARY: [u32; 24] = [
    u32::MAX, u32::MAX - 1, u32::MAX - 2, u32::MAX - 3, u32::MAX - 4, u32::MAX - 7, u32::MAX - 8, u32::MAX - 9, u32::MAX - 15, u32::MAX - 16, u32::MAX - 23,
    u32::MAX - 24, u32::MAX - 31, u32::MAX - 32, u32::MAX - 33, u32::MAX - 40, (1 << 31) - 1, 1 << 31, (1 << 31) + 1, u32::MAX - 4095, u32::MAX - 4096, 1 << 20, 65535, 65536,
];

pub fn sweep_boundary(idx: usize, tag: u64) -> (Vec<Violation>, u64) {
    let reserved = SWEEP_BOUNDARY[idx % SWEEP_BOUNDARY.len()];
    let mut viols: Vec<Violation> = Vec::new();
    let mut n = 0u64;
    hook::set_mode(Mode::Off);
    for unify in [false, true] {
        for backend in [Backend::Vec, Backend::Anon, Backend::File] {
            for cap in [1u32, 64, 1024, 4096, 70000] {
                for sync in [true, false] {
                    n += 1;
                    let cfg = Cfg { sync, backend, unify, freelist: 1, cap, reserved, min_seg: 8, max_align: 8, retries: 3, magic: 0, offset: 0 };
                    // reference prefix in 64-bit arithmetic
                    let eff_unify = unify || backend == Backend::File;
                    let need: u64 = if eff_unify { ((reserved as u64 + 7) & !7) + 8 + 24 } else { reserved as u64 + 1 };
                    let path = if backend == Backend::File { Some(path_for(tag, 10)) } else { None };
                    let r = std::panic::catch_unwind(std::panic::AssertUnwindSafe(|| {
                        if sync {
                            build::<sync::Arena>(&cfg, path.as_deref()).map(|a| a.data_offset())
                        } else {
                            build::<unsync::Arena>(&cfg, path.as_deref()).map(|a| a.data_offset())
                        }
                    }));
                    let what = format!("{} backend={:?} unify={} reserved={} capacity={}", if sync { "sync" } else { "unsync" }, backend, unify, reserved, cap);
                    match r {
                        Err(p) => {
                            let (_, d) = crate::exec::panic_message(&p);
                            if viols.iter().all(|v| v.class != "construction_panicked") {
                                viols.push(Violation { prop: "C16", class: "construction_panicked", detail: format!("{}: construction panicked ({}) instead of failing with InsufficientSpace / InvalidInput", what, d), op: 0 });
                            }
                        }
                        Ok(Ok(off)) if (cap as u64) < need => {
                            if viols.iter().all(|v| v.class != "construction") {
                                viols.push(Violation { prop: "C16", class: "construction", detail: format!("{}: construction succeeded (data_offset {}) although the prefix needs {} bytes", what, off, need), op: 0 });
                            }
                        }
                        _ => {}
                    }
                    if let Some(p) = path {
                        let _ = std::fs::remove_file(p);
                    }
                }
            }
        }
    }
    (viols, n)
}

pub fn sweep(reserved: u32, tag: u64) -> (Vec<Violation>, u64) {
    let mut viols = Vec::new();
    let mut n = 0u64;
    let o = Options::new().with_reserved(reserved);
    let pu = o.data_offset_unify::<sync::Arena>() as u32;
    let pn = o.data_offset::<sync::Arena>() as u32;
    for unify in [false, true] {
        for backend in [Backend::Vec, Backend::Anon, Backend::File] {
            let prefix = if unify || backend == Backend::File { pu } else { pn };
            let mut caps = vec![prefix.saturating_sub(1), prefix, prefix + 1, prefix + 40, prefix.saturating_sub(9), prefix / 2, 1];
            if backend == Backend::Vec {
                caps.push(0);
            }
            caps.sort();
            caps.dedup();
            for cap in caps {
                sweep_one::<sync::Arena>(reserved, unify, backend, cap, &mut viols, &mut n, tag);
                sweep_one::<unsync::Arena>(reserved, unify, backend, cap, &mut viols, &mut n, tag);
            }
        }
    }
    (viols, n)
}
