//! Multi-thread scenarios (MT-SCHED): spec generation, execution, replay, minimisation.

use crate::arena::*;
use crate::exec::{Exec, ExecOpts, Violation};
use crate::hook::{self, Mode};
use crate::mt::{self, MtParams, ShadowRange, Strategy, TOp, ThreadStart, CONTROLLER};
use crate::ops::*;
use crate::rng::Rng;
use crate::types::NTYPES;
use rarena_allocator::sync::Arena;
use rarena_allocator::Allocator;
use serde_json::{json, Value};
use std::collections::BTreeMap;

#[derive(Clone, Debug)]
pub struct MtSpec {
    pub cfg: Cfg,
    pub setup: Vec<Op>,
    pub programs: Vec<Vec<TOp>>,
    pub strategy: Strategy,
    pub sched_seed: u64,
    pub spurious: (u64, u64),
    /// threads own all arena values (the controller keeps none): teardown happens inside the simulation
    pub teardown: bool,
    pub hb: bool,
    pub schedule: Option<Vec<(u8, u32)>>,
    pub spurious_at: Option<Vec<(u8, u64)>>,
    /// take a crash point every n-th atomic step (C06 with threads in flight; file-backed arena)
    pub crash_every: Option<u64>,
}

#[derive(Default)]
pub struct MtOut {
    pub viols: Vec<Violation>,
    pub steps: u64,
    pub decisions: u64,
    pub switches: u64,
    pub parks: u64,
    pub confirms: u64,
    /// functions in which a CAS succeeded on a list word that had been changed and changed back (ABA)
    pub aba: Vec<String>,
    pub mark_wiped: Vec<String>,
    pub spurious_fired: u64,
    pub calls: u64,
    pub trace_hash: u64,
    pub probes: BTreeMap<(u32, u8, u8), u64>,
    pub schedule: Vec<(u8, u32)>,
    pub spurious_log: Vec<(u8, u64)>,
    pub overlapped: bool,
    pub aborted: bool,
    pub setup_failed: bool,
    pub teardowns: u64,
    pub ops_done: usize,
    pub hb_checks: u64,
    pub events: Vec<String>,
    pub end_nodes: usize,
    pub crash_points: Vec<mt::CrashPt>,
}

fn strategy_json(s: &Strategy) -> Value {
    match s {
        Strategy::Random => json!({"kind": "random"}),
        Strategy::Sticky(p) => json!({"kind": "sticky", "p": p}),
        Strategy::Targeted => json!({"kind": "targeted"}),
        Strategy::StallBeforeCas(p) => json!({"kind": "stall_before_cas", "p": p}),
        Strategy::Victim { v, p, lo, hi } => json!({"kind": "victim_stall", "v": v, "p": p, "lo": lo, "hi": hi}),
        Strategy::Pct { prio, change } => json!({"kind": "pct", "prio": prio, "change": change}),
    }
}

fn strategy_from(v: &Value) -> Strategy {
    match v["kind"].as_str().unwrap_or("random") {
        "sticky" => Strategy::Sticky(v["p"].as_u64().unwrap_or(50) as u32),
        "targeted" => Strategy::Targeted,
        "stall_before_cas" => Strategy::StallBeforeCas(v["p"].as_u64().unwrap_or(250) as u32),
        "victim_stall" => Strategy::Victim { v: v["v"].as_u64().unwrap_or(0) as u32, p: v["p"].as_u64().unwrap_or(100) as u32, lo: v["lo"].as_u64().unwrap_or(20) as u32, hi: v["hi"].as_u64().unwrap_or(300) as u32 },
        "pct" => Strategy::Pct {
            prio: v["prio"].as_array().map(|a| a.iter().map(|x| x.as_u64().unwrap_or(0) as u32).collect()).unwrap_or_default(),
            change: v["change"].as_array().map(|a| a.iter().map(|x| x.as_u64().unwrap_or(0)).collect()).unwrap_or_default(),
        },
        _ => Strategy::Random,
    }
}

impl MtSpec {
    pub fn to_json(&self) -> Value {
        json!({
            "cfg": self.cfg.to_json(),
            "setup": ops_to_json(&self.setup),
            "programs": self.programs.iter().map(|p| Value::Array(p.iter().map(|o| o.to_json()).collect())).collect::<Vec<_>>(),
            "strategy": strategy_json(&self.strategy),
            "sched_seed": self.sched_seed,
            "spurious": [self.spurious.0, self.spurious.1],
            "teardown": self.teardown,
            "hb": self.hb,
            "schedule": self.schedule.as_ref().map(|s| s.iter().map(|(t, n)| json!([t, n])).collect::<Vec<_>>()),
            "spurious_at": self.spurious_at.as_ref().map(|s| s.iter().map(|(t, n)| json!([t, n])).collect::<Vec<_>>()),
            "crash_every": self.crash_every,
        })
    }
    pub fn from_json(v: &Value) -> Option<MtSpec> {
        Some(MtSpec {
            cfg: Cfg::from_json(v.get("cfg")?)?,
            setup: ops_from_json(v.get("setup")?)?,
            programs: v.get("programs")?.as_array()?.iter().map(|p| p.as_array().map(|a| a.iter().filter_map(TOp::from_json).collect::<Vec<_>>())).collect::<Option<Vec<_>>>()?,
            strategy: strategy_from(v.get("strategy")?),
            sched_seed: v.get("sched_seed")?.as_u64()?,
            spurious: (v["spurious"][0].as_u64().unwrap_or(0), v["spurious"][1].as_u64().unwrap_or(1)),
            teardown: v.get("teardown").and_then(|x| x.as_bool()).unwrap_or(false),
            hb: v.get("hb").and_then(|x| x.as_bool()).unwrap_or(false),
            schedule: v.get("schedule").and_then(|s| s.as_array()).map(|a| a.iter().map(|e| (e[0].as_u64().unwrap_or(0) as u8, e[1].as_u64().unwrap_or(0) as u32)).collect()),
            spurious_at: v.get("spurious_at").and_then(|s| s.as_array()).map(|a| a.iter().map(|e| (e[0].as_u64().unwrap_or(0) as u8, e[1].as_u64().unwrap_or(0))).collect()),
            crash_every: v.get("crash_every").and_then(|x| x.as_u64()),
        })
    }
}

#[derive(Clone, Copy, Debug, PartialEq, Eq)]
pub enum MtFlavour {
    /// C02: alloc / drop programs, all freelist kinds
    Safety,
    /// C07: + discard_freelist, retire / keep-for-ever, Optimistic & Pessimistic only
    Liveness,
    /// C12: + clone/drop arena, owned hand-over, teardown inside the simulation, vector clocks
    Hb,
    /// C13: clone/drop/owned interleavings, teardown inside the simulation
    Lifecycle,
    /// C04: as Safety, with boundary-dense request sizes (around capacity, 2^31, u32::MAX)
    Boundary,
    /// recycle-heavy: a nearly full arena, a small menu of sizes, mostly alloc / drop, one victim thread stalled
    /// across whole operations of the others - segments come back at the same offsets (ABA shapes)
    Recycle,
}

fn gen_size(rng: &mut Rng, cap: u32) -> u32 {
    match rng.below(12) {
        0 => 0,
        1..=6 => rng.range(1, 24) as u32,
        7..=9 => rng.range(8, 64) as u32,
        10 => rng.range(1, (cap as u64 / 3).max(2)) as u32,
        _ => rng.range(16, 128) as u32,
    }
}

fn gen_size_boundary(rng: &mut Rng, cap: u32) -> u32 {
    let d = rng.range(0, 3) as u32;
    match rng.below(14) {
        0 => 0,
        1 => cap.wrapping_add(d),
        2 => cap.wrapping_sub(d + rng.range(0, 64) as u32),
        3 => (1u32 << 31).wrapping_add(d),
        4 => (1u32 << 31).wrapping_sub(d),
        5 => u32::MAX - rng.range(0, 96) as u32,
        6 => u32::MAX - cap.wrapping_add(d),
        7 => u32::MAX - rng.range(0, 2 * cap as u64) as u32,
        8 => rng.next_u64() as u32,
        _ => gen_size(rng, cap),
    }
}

const RECYCLE_SIZES: [u32; 8] = [8, 24, 32, 40, 56, 64, 112, 120];

fn gen_recycle(seed: u64, run: u64) -> MtSpec {
    let mut rng = Rng::derive(seed, run, 12);
    let mut cfg = Cfg::random(&mut rng, Some(true), &[Backend::Vec, Backend::Anon], &[1, 1, 2]);
    cfg.cap = rng.range(300, 900) as u32;
    cfg.reserved = *rng.pick(&[0u32, 0, 8]);
    cfg.min_seg = *rng.pick(&[0u32, 1, 8, 8, 8, 20]);
    cfg.max_align = 8;
    // set-up: carve the arena into menu-sized blocks, exhaust it, free two to four of them
    let mut setup = Vec::new();
    let n_alloc = rng.range(3, 9);
    for _ in 0..n_alloc {
        setup.push(Op::Alloc { kind: AllocKind::Bytes, ty: 0, size: *rng.pick(&RECYCLE_SIZES), owned: false, arena: 0 });
    }
    setup.push(Op::Fill);
    for _ in 0..rng.range(1, 4) {
        setup.push(Op::Drop { h: rng.below(64) as usize });
    }
    let n = rng.range(2, 3) as usize + 1;
    let n = n.min(4);
    let mut programs = Vec::new();
    for t in 0..n {
        let mut prng = Rng::derive(seed, run, 100 + t as u64);
        let len = prng.range(3, 10);
        let mut prog = Vec::new();
        for _ in 0..len {
            let op = match prng.below(100) {
                0..=49 => TOp::Alloc { kind: AllocKind::Bytes, ty: 0, size: *prng.pick(&RECYCLE_SIZES), owned: false },
                50..=54 => TOp::Alloc { kind: AllocKind::Typed, ty: *prng.pick(&[4u8, 9, 10]), size: 0, owned: false },
                55..=94 => TOp::Drop { h: prng.below(16) as usize },
                95..=96 => TOp::Rewrite { h: prng.below(16) as usize },
                _ => TOp::Check { h: prng.below(16) as usize },
            };
            prog.push(op);
        }
        programs.push(prog);
    }
    let strategy = match rng.below(4) {
        0 => Strategy::StallBeforeCas(*rng.pick(&[250u32, 500])),
        _ => Strategy::Victim { v: rng.below(n as u64) as u32, p: *rng.pick(&[30u32, 60, 120, 250]), lo: *rng.pick(&[10u32, 40, 80]), hi: *rng.pick(&[150u32, 400, 900]) },
    };
    MtSpec { cfg, setup, programs, strategy, sched_seed: rng.next_u64(), spurious: (0, 1), teardown: false, hb: false, schedule: None, spurious_at: None, crash_every: None }
}

pub fn gen_spec(seed: u64, run: u64, fl: MtFlavour) -> MtSpec {
    if fl == MtFlavour::Recycle {
        return gen_recycle(seed, run);
    }
    let mut rng = Rng::derive(seed, run, 11);
    let freelists: &[u8] = match fl {
        MtFlavour::Liveness => &[1, 2],
        _ => &[0, 1, 1, 1, 2, 2, 2],
    };
    let mut cfg = Cfg::random(&mut rng, Some(true), &[Backend::Vec, Backend::Vec, Backend::Anon, Backend::File], freelists);
    cfg.cap = match rng.below(8) {
        0..=2 => rng.range(96, 256),
        3..=5 => rng.range(200, 640),
        _ => rng.range(512, 2048),
    } as u32;
    cfg.reserved = *rng.pick(&[0u32, 0, 0, 5, 8]);
    cfg.min_seg = *rng.pick(&[0u32, 1, 8, 8, 20, 48]);
    // ---- single-threaded set-up phase: fill, then free a random subset
    let mut setup = Vec::new();
    let n_alloc = rng.range(2, 14);
    for _ in 0..n_alloc {
        let kind = *rng.pick(&[AllocKind::Bytes, AllocKind::Bytes, AllocKind::Typed, AllocKind::Aligned]);
        let ty = match rng.below(NTYPES as u64 - 1) as u8 { crate::types::TY_DROP => NTYPES - 1, t => t }; // no DropCounter in set-up
        let size = rng.range(4, 72) as u32;
        setup.push(Op::Alloc { kind, ty, size, owned: false, arena: 0 });
    }
    if rng.chance(3, 5) {
        setup.push(Op::Fill);
    }
    let n_free = rng.range(0, n_alloc);
    for _ in 0..n_free {
        setup.push(Op::Drop { h: rng.below(64) as usize });
    }
    if rng.chance(1, 6) {
        setup.push(Op::SetMinSeg(*rng.pick(&[0u32, 8, 20, 48])));
    }
    // ---- programs
    let n = rng.range(2, 4) as usize;
    let mut programs = Vec::new();
    let teardown = matches!(fl, MtFlavour::Hb | MtFlavour::Lifecycle) && rng.chance(2, 3);
    for t in 0..n {
        let mut prng = Rng::derive(seed, run, 100 + t as u64);
        let len = match prng.below(4) {
            0 => prng.range(1, 3),
            1..=2 => prng.range(2, 7),
            _ => prng.range(4, 12),
        };
        let mut prog = Vec::new();
        // weights: alloc_bytes, aligned, typed, drop, detach_forget, rewrite, check, discard, clone, drop_arena, send, recv
        let w: [u32; 12] = match fl {
            MtFlavour::Safety | MtFlavour::Boundary | MtFlavour::Recycle => [30, 10, 22, 36, 2, 4, 3, 1, 1, 1, 1, 1],
            MtFlavour::Liveness => [30, 8, 18, 36, 4, 0, 0, 4, 1, 1, 1, 1],
            MtFlavour::Hb => [28, 8, 18, 34, 2, 4, 2, 1, 4, 4, 5, 5],
            MtFlavour::Lifecycle => [22, 6, 16, 30, 5, 0, 0, 0, 9, 9, 6, 6],
        };
        let owned_pct = match fl {
            MtFlavour::Safety | MtFlavour::Liveness | MtFlavour::Boundary | MtFlavour::Recycle => 20,
            _ => 55,
        };
        for _ in 0..len {
            let op = match prng.weighted(&w) {
                0 => TOp::Alloc { kind: AllocKind::Bytes, ty: 0, size: if fl == MtFlavour::Boundary { gen_size_boundary(&mut prng, cfg.cap) } else { gen_size(&mut prng, cfg.cap) }, owned: prng.below(100) < owned_pct },
                1 => TOp::Alloc { kind: AllocKind::Aligned, ty: prng.below(NTYPES as u64) as u8, size: if fl == MtFlavour::Boundary { gen_size_boundary(&mut prng, cfg.cap) } else { gen_size(&mut prng, cfg.cap) / 2 }, owned: prng.below(100) < owned_pct },
                2 => TOp::Alloc { kind: AllocKind::Typed, ty: prng.below(NTYPES as u64) as u8, size: 0, owned: prng.below(100) < owned_pct },
                3 => TOp::Drop { h: prng.below(16) as usize },
                4 => TOp::DetachForget { h: prng.below(16) as usize },
                5 => TOp::Rewrite { h: prng.below(16) as usize },
                6 => TOp::Check { h: prng.below(16) as usize },
                7 => TOp::DiscardFreelist,
                8 => TOp::CloneArena,
                9 => TOp::DropArena,
                10 => TOp::Send { h: prng.below(16) as usize, to: prng.below(n as u64) as usize },
                _ => TOp::Recv,
            };
            prog.push(op);
        }
        if teardown {
            // end of life: receive what is in flight, release handles, then every arena value
            prog.push(TOp::Recv);
            let k = prng.range(0, 4);
            for _ in 0..k {
                prog.push(TOp::Drop { h: prng.below(16) as usize });
            }
        }
        programs.push(prog);
    }
    let strategy = match rng.below(13) {
        10..=12 => Strategy::StallBeforeCas(*rng.pick(&[100u32, 250, 500])),
        0..=1 => Strategy::Random,
        2..=4 => Strategy::Sticky(*rng.pick(&[20u32, 50, 200, 500])),
        5..=7 => {
            let d = rng.range(1, 4);
            let prio: Vec<u32> = {
                let mut p: Vec<u32> = (0..n as u32).map(|i| 10 + i).collect();
                for i in (1..p.len()).rev() {
                    let j = rng.below(i as u64 + 1) as usize;
                    p.swap(i, j);
                }
                p
            };
            let change: Vec<u64> = (0..d).map(|_| rng.range(1, 400)).collect();
            Strategy::Pct { prio, change }
        }
        _ => Strategy::Targeted,
    };
    MtSpec {
        cfg,
        setup,
        programs,
        strategy,
        sched_seed: rng.next_u64(),
        spurious: if rng.chance(1, 2) { (*rng.pick(&[1u64, 1, 2]), 20) } else { (0, 1) },
        teardown,
        hb: fl == MtFlavour::Hb,
        schedule: None,
        spurious_at: None,
        crash_every: None,
    }
}

/// Executes one multi-thread run.
pub fn run_spec(spec: &MtSpec, record_events: bool) -> MtOut {
    let mut out = MtOut::default();
    hook::set_mode(Mode::Off);
    let _ = mt::drained_drops();
    // ---- set-up (single thread, counting mode)
    crate::hook::ST.with(|st| st.borrow_mut().reset());
    let path = if spec.cfg.backend == Backend::File { Some(crate::st::scratch_dir().join(format!("m{}.arena", spec.sched_seed))) } else { None };
    let mut e = match Exec::<Arena>::new(spec.cfg, path.clone(), ExecOpts { check_reserved: true, spurious: None, crash_snaps: None }) {
        Ok(e) => e,
        Err(_) => {
            out.setup_failed = true;
            return out;
        }
    };
    for op in &spec.setup {
        e.step(op);
        if e.dead {
            break;
        }
    }
    if e.dead {
        out.setup_failed = true;
        e.finish(0);
        return out;
    }
    // keep everything that is live as controller-owned ranges that are never released
    while let Some(mut l) = e.live.pop() {
        l.h.0.detach_();
        let r = l.r.clone();
        drop(l);
        if r.cap > 0 {
            e.kept.push(r);
        }
    }
    hook::set_mode(Mode::Off);
    let initial: Vec<ShadowRange> = e.kept.iter().map(|r| ShadowRange { id: r.id, owner: CONTROLLER, off: r.off, cap: r.cap, bytes: r.bytes.clone() }).collect();
    let original: Box<Arena> = e.arenas[0].take().unwrap();
    e.arenas.clear();
    let n = spec.programs.len();
    // ---- distribute arena values
    let mut starts = Vec::new();
    let mut ctl: Option<Box<Arena>> = None;
    let mut orig = Some(original);
    for t in 0..n {
        let a = if spec.teardown && t == 0 { orig.take().unwrap() } else { Box::new(orig.as_ref().map(|o| (**o).clone()).unwrap_or_else(|| (**starts_first(&starts)).clone())) };
        let mut prog = spec.programs[t].clone();
        if spec.teardown {
            prog.push(TOp::DropArena);
            prog.push(TOp::DropArena);
            prog.push(TOp::DropArena);
        }
        starts.push(ThreadStart { t, arenas: vec![Some(a)], prog, id_base: 1_000_000 * (t as u64 + 1) });
    }
    if !spec.teardown {
        ctl = orig.take();
    }
    let probe_arena: &Arena = match &ctl {
        Some(c) => c,
        None => starts[0].arenas[0].as_ref().unwrap(),
    };
    let params = MtParams {
        n,
        strategy: spec.strategy.clone(),
        sched_seed: spec.sched_seed,
        spurious: spec.spurious,
        replay_schedule: spec.schedule.clone(),
        replay_spurious: spec.spurious_at.clone(),
        hb: spec.hb,
        record_events,
        max_steps: 400_000,
        crash_every: spec.crash_every,
    };
    mt::install(probe_arena, &params, initial);
    if spec.hb {
        // the set-up phase wrote the controller-owned ranges
        mt::with(|s| {
            let ranges: Vec<(usize, usize)> = s.shadow.iter().map(|r| (r.off, r.cap)).collect();
            for (o, c) in ranges {
                mt::hb_plain(s, CONTROLLER, o, c, true, "owner write");
            }
        });
    }
    let (ends, mut st) = mt::run_threads(starts);
    hook::set_mode(Mode::Off);
    out.aborted = st.abort.is_some();
    out.ops_done = ends.iter().map(|e| e.ops_done).sum();
    // ---- end-of-run oracles (only when the run completed)
    if !out.aborted {
        if !st.torn_down {
            let mem = unsafe { std::slice::from_raw_parts(st.base as *const u8, st.cap) };
            for r in &st.shadow {
                if r.cap > 0 && mem[r.off..r.off + r.cap] != r.bytes[..] {
                    let i = (0..r.cap).find(|i| mem[r.off + i] != r.bytes[*i]).unwrap();
                    st.viols.push(Violation { prop: "C02", class: "bytes_changed", detail: format!("[end] live range id={} [{},{}) differs at the end of the run: byte +{} is {:#x}, expected {:#x}", r.id, r.off, r.off + r.cap, i, mem[r.off + i], r.bytes[i]), op: st.steps as usize });
                    break;
                }
            }
        }
        // C13: reference count equals the number of live arena values
        let live_values: usize = ends.iter().map(|e| e.arenas.iter().flatten().count() + e.handles.iter().filter(|h| h.owned).count()).sum::<usize>() + ctl.iter().count() + st.mailbox.iter().map(|m| m.len()).sum::<usize>();
        let zero_owned: usize = ends.iter().map(|e| e.handles.iter().filter(|h| h.owned && h.h.0.meta().3 == 0 && h.drop_id.is_none()).count()).sum::<usize>()
            + st.mailbox.iter().map(|m| m.iter().filter(|(h, _, _, _)| h.0.meta().3 == 0).count()).sum::<usize>();
        if live_values > 0 && !st.torn_down {
            // refs() can only be observed through an arena value (owned handles do not expose it)
            if let Some(any) = ctl.as_deref().or_else(|| ends.iter().flat_map(|e| e.arenas.iter().flatten()).next().map(|b| &**b)) {
                let refs = any.verif_refs();
                if refs > live_values || refs + zero_owned < live_values {
                    st.viols.push(Violation { prop: "C13", class: "refs", detail: format!("[end] refs()={} but {} arena values / owned handles are alive ({} of them zero-sized owned buffers)", refs, live_values, zero_owned), op: 0 });
                }
                out.end_nodes = any.snap().nodes.len();
            }
        }
        if st.torn_down && live_values > zero_owned {
            st.viols.push(Violation { prop: "C13", class: "early_teardown", detail: format!("[end] backing store was released although {} arena values / owned handles are still alive", live_values), op: 0 });
        }
        if live_values == 0 && st.teardowns != 1 {
            st.viols.push(Violation { prop: "C13", class: "teardown_count", detail: format!("[end] all arena values dropped inside the simulation but the backing store was released {} times", st.teardowns), op: 0 });
        }
    }
    // C13: a value that needs dropping is dropped exactly once when its non-detached handle is dropped
    if !out.aborted {
        let dropped = mt::drained_drops();
        for id in &st.expected_drops {
            let n = dropped.iter().filter(|d| *d == id).count();
            if n != 1 {
                st.viols.push(Violation { prop: "C13", class: "value_drop", detail: format!("[end] value id={} of a handle dropped inside the simulation was dropped {} times", id, n), op: 0 });
                break;
            }
        }
        if let Some(d) = dropped.iter().find(|d| !st.expected_drops.contains(d)) {
            st.viols.push(Violation { prop: "C13", class: "value_drop", detail: format!("[end] value id={} was dropped although its handle is still alive or was detached", d), op: 0 });
        }
    }
    // ---- clean-up outside the simulation (detached, so nothing is released into the list)
    let torn = st.torn_down;
    for mb in st.mailbox.iter_mut() {
        for (mut h, _, _, _) in mb.drain(..) {
            if torn {
                std::mem::forget(h);
            } else {
                h.0.detach_();
                drop(h);
            }
        }
    }
    for mut end in ends {
        for mut h in end.handles.drain(..) {
            if torn {
                std::mem::forget(h);
                continue;
            }
            h.h.0.detach_();
            drop(h);
        }
        for a in end.arenas.drain(..) {
            if torn {
                std::mem::forget(a);
            } else {
                drop(a);
            }
        }
    }
    drop(ctl);
    let _ = mt::drained_drops();
    out.viols = std::mem::take(&mut st.viols);
    out.viols.extend(e.viols.iter().cloned());
    out.steps = st.steps;
    out.decisions = st.decisions;
    out.switches = st.context_switches;
    out.parks = st.parks;
    out.confirms = st.confirms;
    out.aba = st.aba.clone();
    out.mark_wiped = st.mark_wiped.clone();
    out.spurious_fired = st.spurious_fired;
    out.calls = st.calls_done;
    out.trace_hash = st.trace_hash;
    out.probes = std::mem::take(&mut st.probes);
    out.schedule = std::mem::take(&mut st.schedule);
    out.spurious_log = std::mem::take(&mut st.spurious_log);
    out.overlapped = st.overlapped_slow;
    out.teardowns = st.teardowns;
    out.hb_checks = st.hb_checks;
    out.events = st.events.take().unwrap_or_default();
    out.crash_points = std::mem::take(&mut st.crash_points);
    if let Some(p) = path {
        let _ = std::fs::remove_file(p);
    }
    out
}

fn starts_first(starts: &[ThreadStart]) -> &Box<Arena> {
    starts[0].arenas[0].as_ref().unwrap()
}

/// Signature of an MT violation: property | class | bracketed tag of the detail.
pub fn mt_signature(v: &Violation) -> String {
    v.signature()
}

/// Turns the recorded execution into an explicit spec (schedule + spurious decisions fixed).
pub fn freeze(spec: &MtSpec, out: &MtOut) -> MtSpec {
    let mut s = spec.clone();
    s.schedule = Some(out.schedule.clone());
    s.spurious_at = Some(out.spurious_log.clone());
    s
}

/// Bounded minimisation: drop operations, threads' tails, set-up ops, spurious faults; merge schedule segments.
pub fn minimise(spec: &MtSpec, sig: &str, budget: usize) -> MtSpec {
    let mut cur = spec.clone();
    let mut tries = 0;
    let fails = |s: &MtSpec, tries: &mut usize| -> Option<MtOut> {
        *tries += 1;
        let o = run_spec(s, false);
        if o.viols.iter().any(|v| mt_signature(v) == sig) {
            Some(o)
        } else {
            None
        }
    };
    // 1. drop spurious faults
    if cur.spurious_at.as_ref().map(|s| !s.is_empty()).unwrap_or(false) {
        let mut c = cur.clone();
        c.spurious_at = Some(Vec::new());
        if fails(&c, &mut tries).is_some() {
            cur = c;
        }
    }
    // 2. remove program operations (keeps the schedule; infeasible entries fall back deterministically)
    let mut progress = true;
    while progress && tries < budget {
        progress = false;
        for t in 0..cur.programs.len() {
            let mut i = cur.programs[t].len();
            while i > 0 && tries < budget {
                i -= 1;
                let mut c = cur.clone();
                c.programs[t].remove(i);
                if let Some(o) = fails(&c, &mut tries) {
                    cur = freeze(&c, &o);
                    progress = true;
                }
            }
        }
        let mut i = cur.setup.len();
        while i > 0 && tries < budget {
            i -= 1;
            let mut c = cur.clone();
            c.setup.remove(i);
            if let Some(o) = fails(&c, &mut tries) {
                cur = freeze(&c, &o);
                progress = true;
            }
        }
    }
    // 3. merge adjacent schedule segments to reduce context switches
    if let Some(mut sched) = cur.schedule.clone() {
        let mut i = 0;
        while i + 1 < sched.len() && tries < budget {
            let mut c = cur.clone();
            let mut s2 = sched.clone();
            let (t0, n0) = s2[i];
            let (_, n1) = s2[i + 1];
            s2[i] = (t0, n0 + n1);
            s2.remove(i + 1);
            c.schedule = Some(s2);
            if let Some(o) = fails(&c, &mut tries) {
                cur = freeze(&c, &o);
                sched = cur.schedule.clone().unwrap();
            } else {
                i += 1;
            }
        }
    }
    cur
}
