//! Menu of value types used for typed allocations, and the handle abstraction.

use rarena_allocator::{Allocator, Buffer, BytesMut, BytesRefMut, Owned, RefMut};
use std::cell::RefCell;

#[repr(C, align(16))]
#[derive(Clone, Copy)]
pub struct A16(pub [u8; 24]);

/// A type that needs dropping; records the ids of dropped values.
pub struct DropCounter(pub u64);

thread_local! {
    pub static DROPS: RefCell<Vec<u64>> = const { RefCell::new(Vec::new()) };
}
pub static GLOBAL_DROPS: std::sync::Mutex<Vec<u64>> = std::sync::Mutex::new(Vec::new());

impl Drop for DropCounter {
    fn drop(&mut self) {
        let id = self.0;
        if DROPS.try_with(|d| d.borrow_mut().push(id)).is_err() {}
        if let Ok(mut g) = GLOBAL_DROPS.lock() {
            g.push(id);
        }
    }
}

pub fn take_drops() -> Vec<u64> {
    DROPS.with(|d| std::mem::take(&mut *d.borrow_mut()))
}

#[derive(Clone, Copy, Debug)]
pub struct TyInfo {
    pub name: &'static str,
    pub size: usize,
    pub align: usize,
    pub needs_drop: bool,
}

pub const NTYPES: u8 = 15;
pub const TY_DROP: u8 = 12;

#[macro_export]
macro_rules! with_ty {
    ($idx:expr, $T:ident => $body:expr) => {
        match $idx {
            0 => { type $T = (); $body }
            1 => { type $T = u8; $body }
            2 => { type $T = u16; $body }
            3 => { type $T = u32; $body }
            4 => { type $T = u64; $body }
            5 => { type $T = u128; $body }
            6 => { type $T = [u8; 3]; $body }
            7 => { type $T = [u16; 5]; $body }
            8 => { type $T = [u32; 7]; $body }
            9 => { type $T = [u64; 3]; $body }
            10 => { type $T = [u8; 64]; $body }
            11 => { type $T = $crate::types::A16; $body }
            12 => { type $T = $crate::types::DropCounter; $body }
            13 => { type $T = [u64; 0]; $body }
            _ => { type $T = [u128; 0]; $body }
        }
    };
}

pub fn ty_info(idx: u8) -> TyInfo {
    const NAMES: [&str; 15] = ["()", "u8", "u16", "u32", "u64", "u128", "[u8;3]", "[u16;5]", "[u32;7]", "[u64;3]", "[u8;64]", "A16", "DropCounter", "[u64;0]", "[u128;0]"];
    with_ty!(idx, T => TyInfo {
        name: NAMES[(idx as usize).min(14)],
        size: std::mem::size_of::<T>(),
        align: std::mem::align_of::<T>(),
        needs_drop: std::mem::needs_drop::<T>(),
    })
}

/// Uniform view of the four handle types.
pub trait AnyHandle {
    /// (offset, capacity, buffer_offset, buffer_capacity)
    fn meta(&self) -> (usize, usize, usize, usize);
    fn detach_(&mut self);
    /// Pointer obtained *through the handle* for writing `capacity` bytes;
    /// null when the handle exposes no arena bytes (zero size, or a value
    /// that lives in the handle itself).
    fn wptr(&mut self) -> *mut u8;
    /// Address reported by the typed accessors (for alignment checks); 0 if none.
    fn typed_addr(&mut self) -> usize {
        0
    }
    fn flush_(&self) -> std::io::Result<()>;
}

impl<A: Allocator> AnyHandle for BytesRefMut<'static, A> {
    fn meta(&self) -> (usize, usize, usize, usize) {
        (self.offset(), self.capacity(), self.buffer_offset(), self.buffer_capacity())
    }
    fn detach_(&mut self) {
        unsafe { self.detach() }
    }
    fn wptr(&mut self) -> *mut u8 {
        if self.capacity() == 0 {
            std::ptr::null_mut()
        } else {
            self.as_mut_ptr()
        }
    }
    fn flush_(&self) -> std::io::Result<()> {
        self.flush()
    }
}

impl<A: Allocator> AnyHandle for BytesMut<A> {
    fn meta(&self) -> (usize, usize, usize, usize) {
        (self.offset(), self.capacity(), self.buffer_offset(), self.buffer_capacity())
    }
    fn detach_(&mut self) {
        unsafe { self.detach() }
    }
    fn wptr(&mut self) -> *mut u8 {
        if self.capacity() == 0 {
            std::ptr::null_mut()
        } else {
            self.as_mut_ptr()
        }
    }
    fn flush_(&self) -> std::io::Result<()> {
        self.flush()
    }
}

impl<T: 'static, A: Allocator> AnyHandle for RefMut<'static, T, A> {
    fn meta(&self) -> (usize, usize, usize, usize) {
        (self.offset(), self.capacity(), self.buffer_offset(), self.buffer_capacity())
    }
    fn detach_(&mut self) {
        unsafe { self.detach() }
    }
    fn wptr(&mut self) -> *mut u8 {
        if std::mem::size_of::<T>() == 0 || std::mem::needs_drop::<T>() {
            std::ptr::null_mut()
        } else {
            self.as_mut_ptr().as_ptr() as *mut u8
        }
    }
    fn typed_addr(&mut self) -> usize {
        if std::mem::size_of::<T>() == 0 {
            0
        } else {
            self.as_mut_ptr().as_ptr() as usize
        }
    }
    fn flush_(&self) -> std::io::Result<()> {
        self.flush()
    }
}

impl<T: 'static, A: Allocator> AnyHandle for Owned<T, A> {
    fn meta(&self) -> (usize, usize, usize, usize) {
        (self.offset(), self.capacity(), self.buffer_offset(), self.buffer_capacity())
    }
    fn detach_(&mut self) {
        unsafe { self.detach() }
    }
    fn wptr(&mut self) -> *mut u8 {
        if std::mem::size_of::<T>() == 0 || std::mem::needs_drop::<T>() {
            std::ptr::null_mut()
        } else {
            self.as_mut_ptr().as_ptr() as *mut u8
        }
    }
    fn typed_addr(&mut self) -> usize {
        if std::mem::size_of::<T>() == 0 {
            0
        } else {
            self.as_mut_ptr().as_ptr() as usize
        }
    }
    fn flush_(&self) -> std::io::Result<()> {
        self.flush()
    }
}

/// Handles are moved between simulated threads only under the scheduler's baton.
pub struct HBox(pub Box<dyn AnyHandle>);
unsafe impl Send for HBox {}
