//! splitmix64 PRNG with independent, hash-derived sub-streams.
//! Everything random in the simulator is drawn from one of these streams,
//! all of which are functions of VERIF_SEED.

#[derive(Clone, Debug)]
pub struct Rng(u64);

#[inline]
pub fn mix(mut z: u64) -> u64 {
    z = z.wrapping_add(0x9E37_79B9_7F4A_7C15);
    z = (z ^ (z >> 30)).wrapping_mul(0xBF58_476D_1CE4_E5B9);
    z = (z ^ (z >> 27)).wrapping_mul(0x94D0_49BB_1331_11EB);
    z ^ (z >> 31)
}

impl Rng {
    pub fn new(seed: u64) -> Self {
        Rng(mix(seed ^ 0xD1B5_4A32_D192_ED03))
    }

    /// Independent stream for (root seed, run index, stream id).
    pub fn derive(root: u64, run: u64, stream: u64) -> Self {
        Rng(mix(mix(mix(root) ^ run.wrapping_mul(0xA24B_AED4_963E_E407)) ^ stream.wrapping_mul(0x9FB2_1C65_1E98_DF25)))
    }

    #[inline]
    pub fn next_u64(&mut self) -> u64 {
        self.0 = self.0.wrapping_add(0x9E37_79B9_7F4A_7C15);
        let mut z = self.0;
        z = (z ^ (z >> 30)).wrapping_mul(0xBF58_476D_1CE4_E5B9);
        z = (z ^ (z >> 27)).wrapping_mul(0x94D0_49BB_1331_11EB);
        z ^ (z >> 31)
    }

    /// Uniform in 0..n (n > 0).
    #[inline]
    pub fn below(&mut self, n: u64) -> u64 {
        debug_assert!(n > 0);
        ((self.next_u64() as u128 * n as u128) >> 64) as u64
    }

    /// Uniform in lo..=hi.
    #[inline]
    pub fn range(&mut self, lo: u64, hi: u64) -> u64 {
        lo + self.below(hi - lo + 1)
    }

    #[inline]
    pub fn chance(&mut self, num: u64, den: u64) -> bool {
        self.below(den) < num
    }

    #[inline]
    pub fn pick<'a, T>(&mut self, xs: &'a [T]) -> &'a T {
        &xs[self.below(xs.len() as u64) as usize]
    }

    /// Picks an index according to integer weights.
    pub fn weighted(&mut self, ws: &[u32]) -> usize {
        let total: u64 = ws.iter().map(|w| *w as u64).sum();
        let mut x = self.below(total.max(1));
        for (i, w) in ws.iter().enumerate() {
            if x < *w as u64 {
                return i;
            }
            x -= *w as u64;
        }
        ws.len() - 1
    }
}

/// FNV-style incremental hash used for trace / state hashes.
#[inline]
pub fn hash_add(h: u64, v: u64) -> u64 {
    mix(h ^ v.wrapping_mul(0x100_0000_01B3))
}
