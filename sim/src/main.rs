//! rsim — deterministic simulation with fault injection for al8n/rarena.
//!
//!   rsim check <PROP> [--tier quick|thorough] [--seed N] [--jobs J] [--runs N]
//!   rsim worker ...            (internal: one worker process)
//!   rsim minimise ...          (internal: regenerate a failing run, minimise, write replay file)
//!   rsim replay <file>         re-executes a replay file, exit 1 if the violation reproduces
//!
//! Exit codes of `check`: 0 property held on everything explored (known findings are
//! printed as KNOWN-FINDING lines), 1 violation (VIOLATION line), 2 harness error.

mod arena;
mod corrupt;
mod crash;
mod diff;
mod exec;
mod gen;
mod hook;
mod mt;
mod mtscen;
mod ops;
mod rng;
mod scen;
mod st;
mod types;

use serde_json::{json, Value};

/// The heap as a seam: what a fresh (not zeroed) heap block contains depends on what the process freed before, which
/// no seed decides. Every block handed out by `alloc` / grown by `realloc` is therefore filled with a fixed pattern
/// (blocks up to 1 MiB; larger ones come straight from mmap and are zero), so that code which relies on a fresh
/// block being zero misbehaves in the same way in every execution, the replay of a minimised history included.
/// `alloc_zeroed` goes to the system allocator unchanged (calloc: lazily mapped zero pages for the 4 GiB arenas).
struct PoisonAlloc;
const POISON_MAX: usize = 1 << 20;
unsafe impl std::alloc::GlobalAlloc for PoisonAlloc {
    unsafe fn alloc(&self, l: std::alloc::Layout) -> *mut u8 {
        let p = std::alloc::System.alloc(l);
        if !p.is_null() && l.size() <= POISON_MAX {
            std::ptr::write_bytes(p, 0xA5, l.size());
        }
        p
    }
    unsafe fn dealloc(&self, p: *mut u8, l: std::alloc::Layout) {
        std::alloc::System.dealloc(p, l)
    }
    unsafe fn alloc_zeroed(&self, l: std::alloc::Layout) -> *mut u8 {
        std::alloc::System.alloc_zeroed(l)
    }
    unsafe fn realloc(&self, p: *mut u8, l: std::alloc::Layout, new_size: usize) -> *mut u8 {
        let q = std::alloc::System.realloc(p, l, new_size);
        if !q.is_null() && new_size > l.size() && new_size <= POISON_MAX {
            std::ptr::write_bytes(q.add(l.size()), 0xA5, new_size - l.size());
        }
        q
    }
}
#[global_allocator]
static GLOBAL: PoisonAlloc = PoisonAlloc;
use std::collections::{BTreeMap, BTreeSet};
use std::io::Write;
use std::process::{Command, Stdio};
use std::time::Instant;

/// Root of the verification tree (evidence, replays, known findings): set by ./check, defaults to /verif.
pub fn verif_dir() -> String {
    std::env::var("RSIM_VERIF_DIR").unwrap_or_else(|_| "/verif".to_string())
}

#[derive(Clone, Debug, Default)]
pub struct RunSummary {
    pub viols: Vec<exec::Violation>,
    pub nontrivial: bool,
    pub hash: u64,
    pub state_hash: u64,
    pub steps: u64,
    pub ops: u64,
    pub faults: BTreeMap<String, u64>,
    pub probes: BTreeMap<String, u64>,
    pub sample: Option<Value>,
}

fn arg_val(args: &[String], name: &str) -> Option<String> {
    args.iter().position(|a| a == name).and_then(|i| args.get(i + 1).cloned())
}

fn main() {
    let args: Vec<String> = std::env::args().collect();
    if args.len() < 2 {
        eprintln!("usage: rsim check|replay|worker|minimise ...");
        std::process::exit(2);
    }
    // sentinel panics are control flow; keep stderr quiet
    std::panic::set_hook(Box::new(|info| {
        if std::env::var("RSIM_PANIC_VERBOSE").is_ok() {
            eprintln!("panic: {}", info);
            if std::env::var("RUST_BACKTRACE").is_ok() {
                eprintln!("{}", std::backtrace::Backtrace::force_capture());
            }
        }
    }));
    let code = match args[1].as_str() {
        "check" => cmd_check(&args[2..]),
        "worker" => cmd_worker(&args[2..]),
        "minimise" => cmd_minimise(&args[2..]),
        "replay" => cmd_replay(&args[2..]),
        "selftest" => scen::selftest(&args[2..]),
        "digest" => cmd_digest(&args[2..]),
        "mtsearch" => cmd_mtsearch(&args[2..]),
        _ => {
            eprintln!("unknown command {}", args[1]);
            2
        }
    };
    st::cleanup_scratch();
    std::process::exit(code);
}

/// Per-run watchdog. The two 4 GiB arena runs of C04 commit and zero 4 GiB each: on a loaded machine that alone
/// can take longer than the ordinary watchdog, and slowness is not a finding.
fn watchdog_for(prop: &str, run: u64, default_s: f64) -> f64 {
    if prop == "C04" && (run < scen::HUGE_RUNS || run == u64::MAX) {
        default_s.max(900.0)
    } else {
        default_s
    }
}

fn seed_from_env(args: &[String]) -> u64 {
    arg_val(args, "--seed")
        .or_else(|| std::env::var("VERIF_SEED").ok())
        .and_then(|s| s.trim().parse::<u64>().ok())
        .unwrap_or(1)
}

fn tier_from(args: &[String]) -> String {
    arg_val(args, "--tier").or_else(|| std::env::var("VERIF_TIER").ok()).filter(|t| t == "quick" || t == "thorough").unwrap_or_else(|| "quick".into())
}

// ---------------------------------------------------------------- worker

/// One worker process. Output protocol (stdout, one JSON value per line):
///   V {...}   a violation, printed (and flushed) as soon as it is found
///   P {...}   progress counters, every 4096 runs
///   S {...}   the final summary
/// so that everything found before a crash of the process survives it.
fn cmd_worker(args: &[String]) -> i32 {
    let prop = arg_val(args, "--prop").unwrap();
    let seed: u64 = arg_val(args, "--seed").unwrap().parse().unwrap();
    let start: u64 = arg_val(args, "--start").unwrap().parse().unwrap();
    let stride: u64 = arg_val(args, "--stride").unwrap().parse().unwrap();
    let count: u64 = arg_val(args, "--count").unwrap().parse().unwrap();
    let tier = arg_val(args, "--tier").unwrap();
    let budget_s: f64 = arg_val(args, "--budget").and_then(|b| b.parse().ok()).unwrap_or(1e9);
    let cur_file = arg_val(args, "--cur");
    let t0 = Instant::now();
    let mut runs = 0u64;
    let mut steps = 0u64;
    let mut opsn = 0u64;
    let mut faults: BTreeMap<String, u64> = BTreeMap::new();
    let mut probes: BTreeMap<String, u64> = BTreeMap::new();
    let mut hashes: BTreeSet<u64> = BTreeSet::new();
    let mut states: BTreeSet<u64> = BTreeSet::new();
    let mut seen_sig: BTreeMap<String, u64> = BTreeMap::new();
    let mut other: BTreeMap<String, u64> = BTreeMap::new();
    let mut samples: Vec<Value> = Vec::new();
    let mut nontrivial = 0u64;
    let mut curf = cur_file.and_then(|p| std::fs::OpenOptions::new().create(true).write(true).truncate(true).open(p).ok());
    let stdout = std::io::stdout();
    let stop_file = arg_val(args, "--stop");
    let mut i = 0u64;
    while i < count {
        if t0.elapsed().as_secs_f64() > budget_s {
            break;
        }
        // the parent asks for an orderly stop (a violation is already known): finish with a summary
        if i % 32 == 0 {
            if let Some(sf) = &stop_file {
                if std::path::Path::new(sf).exists() {
                    break;
                }
            }
        }
        let run = start + i * stride;
        if let Some(f) = curf.as_mut() {
            use std::os::unix::fs::FileExt;
            let _ = f.write_at(&run.to_le_bytes(), 0);
        }
        let s = scen::run_one(&prop, seed, run, &tier);
        runs += 1;
        steps += s.steps;
        opsn += s.ops;
        for (k, v) in s.faults {
            *faults.entry(k).or_insert(0) += v;
        }
        for (k, v) in s.probes {
            *probes.entry(k).or_insert(0) += v;
        }
        if s.nontrivial {
            nontrivial += 1;
            if hashes.len() < 150_000 {
                hashes.insert(s.hash);
            }
            if samples.len() < 2 {
                if let Some(x) = s.sample {
                    samples.push(x);
                }
            }
        }
        if states.len() < 150_000 {
            states.insert(s.state_hash);
        }
        for v in s.viols {
            if v.prop == prop || v.prop == "HARNESS" {
                let sig = v.signature();
                let n = seen_sig.entry(sig.clone()).or_insert(0);
                *n += 1;
                if *n == 1 {
                    let mut l = stdout.lock();
                    let _ = writeln!(l, "V {}", json!({"run": run, "violation": v.to_json(), "signature": sig, "checked": cfg!(debug_assertions)}));
                    let _ = l.flush();
                }
            } else {
                let n = other.entry(v.signature()).or_insert(0);
                *n += 1;
                if *n == 1 && std::env::var("RSIM_SHOW_OTHER").is_ok() {
                    eprintln!("OTHER run={} {}", run, v.to_json());
                }
            }
        }
        i += 1;
        if i % 4096 == 0 {
            let mut l = stdout.lock();
            let _ = writeln!(l, "P {}", json!({"runs": runs, "steps": steps, "ops": opsn, "nontrivial": nontrivial, "next": start + i * stride}));
            let _ = l.flush();
        }
    }
    let out = json!({
        "runs": runs, "steps": steps, "ops": opsn, "faults": faults, "probes": probes, "nontrivial": nontrivial,
        "hashes": hashes.iter().collect::<Vec<_>>(), "states": states.iter().collect::<Vec<_>>(),
        "violation_counts": seen_sig, "other": other, "samples": samples, "wall_s": t0.elapsed().as_secs_f64(),
    });
    let mut l = stdout.lock();
    let _ = writeln!(l, "S {}", out);
    0
}

/// Prints one line per run: index, trace hash, state hash, steps, ops, violation signatures.
/// Used by tools/determinism.sh to compare executions across processes and worker counts.
fn cmd_digest(args: &[String]) -> i32 {
    let prop = arg_val(args, "--prop").unwrap();
    let seed: u64 = arg_val(args, "--seed").and_then(|s| s.parse().ok()).unwrap_or(1);
    let start: u64 = arg_val(args, "--start").and_then(|s| s.parse().ok()).unwrap_or(0);
    let stride: u64 = arg_val(args, "--stride").and_then(|s| s.parse().ok()).unwrap_or(1);
    let count: u64 = arg_val(args, "--count").and_then(|s| s.parse().ok()).unwrap_or(100);
    let tier = arg_val(args, "--tier").unwrap_or_else(|| "quick".into());
    let stdout = std::io::stdout();
    let mut l = stdout.lock();
    for i in 0..count {
        let run = start + i * stride;
        let s = scen::run_one(&prop, seed, run, &tier);
        let sigs: Vec<String> = s.viols.iter().map(|v| v.signature()).collect();
        let faults: Vec<String> = s.faults.iter().map(|(k, v)| format!("{}={}", k, v)).collect();
        let _ = writeln!(l, "{} {:016x} {:016x} {} {} {} [{}] [{}]", run, s.hash, s.state_hash, s.steps, s.ops, s.nontrivial, sigs.join(","), faults.join(","));
    }
    0
}

// ---------------------------------------------------------------- known findings

#[derive(Clone, Debug)]
struct Known {
    status: String,
    property: String,
    signature: String,
    what: String,
}

fn load_known() -> Vec<Known> {
    let mut v = Vec::new();
    if let Ok(s) = std::fs::read_to_string(format!("{}/known_findings.jsonl", verif_dir())) {
        for l in s.lines() {
            if let Ok(j) = serde_json::from_str::<Value>(l) {
                v.push(Known {
                    status: j.get("status").and_then(|x| x.as_str()).unwrap_or("").to_string(),
                    property: j.get("property").and_then(|x| x.as_str()).unwrap_or("").to_string(),
                    signature: j.get("signature").and_then(|x| x.as_str()).unwrap_or("").to_string(),
                    what: j.get("what").and_then(|x| x.as_str()).unwrap_or("").to_string(),
                });
            }
        }
    }
    v
}

fn known_match<'a>(known: &'a [Known], prop: &str, sig: &str) -> Option<&'a Known> {
    known.iter().find(|k| k.status == "known" && k.property == prop && !k.signature.is_empty() && sig.starts_with(&k.signature))
}

// ---------------------------------------------------------------- check

fn cmd_check(args: &[String]) -> i32 {
    if args.is_empty() {
        eprintln!("usage: rsim check <PROP> [--tier quick|thorough]");
        return 2;
    }
    let prop = args[0].clone();
    let tier = tier_from(args);
    let seed = seed_from_env(args);
    let jobs: u64 = arg_val(args, "--jobs").and_then(|j| j.parse().ok()).unwrap_or_else(|| std::thread::available_parallelism().map(|n| n.get() as u64).unwrap_or(8)).max(1);
    let Some(plan) = scen::plan(&prop, &tier) else {
        eprintln!("property {} has no check (not applicable or unknown)", prop);
        return 2;
    };
    let total_runs: u64 = arg_val(args, "--runs").and_then(|r| r.parse().ok()).unwrap_or(plan.runs);
    println!("rsim check property={} tier={} VERIF_SEED={} jobs={} runs={}", prop, tier, seed, jobs, total_runs);
    let t0 = Instant::now();
    let exe = std::env::current_exe().unwrap();
    let scratch = st::scratch_dir();
    let per = (total_runs + jobs - 1) / jobs;
    let known = load_known();
    let mut agg_runs = 0u64;
    let mut agg_steps = 0u64;
    let mut agg_ops = 0u64;
    let mut agg_nontrivial = 0u64;
    let mut faults: BTreeMap<String, u64> = BTreeMap::new();
    let mut probes: BTreeMap<String, u64> = BTreeMap::new();
    let mut hashes: BTreeSet<u64> = BTreeSet::new();
    let mut states: BTreeSet<u64> = BTreeSet::new();
    let mut other: BTreeMap<String, u64> = BTreeMap::new();
    let mut samples: Vec<Value> = Vec::new();
    // signature -> (lowest run, violation json)
    let mut found: BTreeMap<String, (u64, Value)> = BTreeMap::new();
    let mut found_checked: BTreeSet<String> = BTreeSet::new();
    let mut harness_error = false;
    let mut harness_note_partial = false;
    let mut worker_deaths = 0u64;

    struct Slot {
        w: u64,
        child: std::process::Child,
        cur: std::path::PathBuf,
        lines: std::sync::Arc<std::sync::Mutex<Vec<String>>>,
        reader: Option<std::thread::JoinHandle<()>>,
        last_run: u64,
        last_change: Instant,
        first_index: u64, // index (in units of stride) of the first run of this incarnation
        remaining: u64,
        restarts: u32,
        checked: bool,
    }
    let stop_path = scratch.join("stop");
    let _ = std::fs::remove_file(&stop_path);
    let spawn = |w: u64, first_index: u64, count: u64, restarts: u32| -> Option<Slot> {
        let cur = scratch.join(format!("w{}.cur", w));
        let checked = matches!(std::env::var("RSIM_CHECKED_EXE"), Ok(ref p) if w % 2 == 1 && std::path::Path::new(p).exists());
        let wexe = if checked { std::path::PathBuf::from(std::env::var("RSIM_CHECKED_EXE").unwrap()) } else { exe.clone() };
        let start = w + first_index * jobs;
        let mut child = Command::new(&wexe)
            .args(["worker", "--prop", &prop, "--seed", &seed.to_string(), "--start", &start.to_string(), "--stride", &jobs.to_string(), "--count", &count.to_string(), "--tier", &tier, "--budget", &plan.budget_s.to_string(), "--cur", cur.to_str().unwrap(), "--stop", stop_path.to_str().unwrap()])
            .stdout(Stdio::piped())
            .stderr(Stdio::inherit())
            .spawn()
            .ok()?;
        let so = child.stdout.take()?;
        let lines = std::sync::Arc::new(std::sync::Mutex::new(Vec::new()));
        let l2 = lines.clone();
        let reader = std::thread::spawn(move || {
            use std::io::BufRead;
            for line in std::io::BufReader::new(so).lines().map_while(Result::ok) {
                l2.lock().unwrap().push(line);
            }
        });
        Some(Slot { w, child, cur, lines, reader: Some(reader), last_run: u64::MAX, last_change: Instant::now(), first_index, remaining: count, restarts, checked })
    };
    let mut slots: Vec<Slot> = Vec::new();
    for w in 0..jobs {
        match spawn(w, 0, per, 0) {
            Some(s) => slots.push(s),
            None => {
                eprintln!("HARNESS-ERROR cannot spawn worker {}", w);
                return 2;
            }
        }
    }
    let read_cur = |p: &std::path::Path| std::fs::read(p).ok().and_then(|b| b.get(..8).map(|x| u64::from_le_bytes(x.try_into().unwrap()))).unwrap_or(u64::MAX);
    let mut first_violation_at: Option<Instant> = None;
    let mut stopped_early = false;
    let mut killed_after_stop = false;
    while !slots.is_empty() {
        // a violation of this property has been reported by a running worker: give the batch a short grace
        // period (other signatures), then stop it - on a broken tree workers tend to crash or hang repeatedly
        if first_violation_at.is_none() {
            let is_new = |sig: &str| known_match(&known, &prop, sig).is_none();
            let in_found = found.keys().any(|k| is_new(k));
            let in_lines = slots.iter().any(|s| {
                s.lines.lock().unwrap().iter().any(|l| {
                    l.strip_prefix("V ").and_then(|r| serde_json::from_str::<Value>(r).ok()).map(|v| is_new(v["signature"].as_str().unwrap_or(""))).unwrap_or(false)
                })
            });
            if in_found || in_lines {
                first_violation_at = Some(Instant::now());
            }
        }
        if let Some(t) = first_violation_at {
            if t.elapsed().as_secs_f64() > 6.0 && !stopped_early {
                // orderly stop first (workers finish their run and print their summary) ...
                stopped_early = true;
                let _ = std::fs::write(&stop_path, b"stop");
            }
            if t.elapsed().as_secs_f64() > 10.0 && !killed_after_stop {
                // ... then whoever is still stuck in a run is killed
                killed_after_stop = true;
                for s in slots.iter_mut() {
                    let _ = s.child.kill();
                }
            }
        }
        let mut i = 0;
        while i < slots.len() {
            let exited = match slots[i].child.try_wait() {
                Ok(Some(st)) => Some((st, false)),
                Ok(None) => {
                    let now_run = read_cur(&slots[i].cur);
                    if now_run != slots[i].last_run {
                        slots[i].last_run = now_run;
                        slots[i].last_change = Instant::now();
                        None
                    } else if slots[i].last_change.elapsed().as_secs_f64() > watchdog_for(&prop, now_run, plan.watchdog_s) {
                        let _ = slots[i].child.kill();
                        Some((slots[i].child.wait().unwrap(), true))
                    } else {
                        None
                    }
                }
                Err(_) => {
                    harness_error = true;
                    let _ = slots[i].child.kill();
                    Some((slots[i].child.wait().unwrap(), false))
                }
            };
            let Some((status, hung)) = exited else {
                i += 1;
                continue;
            };
            let mut slot = slots.remove(i);
            if let Some(r) = slot.reader.take() {
                let _ = r.join();
            }
            let lines = std::mem::take(&mut *slot.lines.lock().unwrap());
            let mut summary: Option<Value> = None;
            let mut progress: Option<Value> = None;
            for l in &lines {
                if let Some(rest) = l.strip_prefix("V ") {
                    if let Ok(v) = serde_json::from_str::<Value>(rest) {
                        let sig = v["signature"].as_str().unwrap_or("").to_string();
                        let run = v["run"].as_u64().unwrap_or(0);
                        if v["checked"].as_bool().unwrap_or(false) && !found.contains_key(&sig) {
                            found_checked.insert(sig.clone());
                        }
                        let e = found.entry(sig).or_insert((run, v["violation"].clone()));
                        if run < e.0 {
                            *e = (run, v["violation"].clone());
                        }
                    }
                } else if let Some(rest) = l.strip_prefix("P ") {
                    progress = serde_json::from_str::<Value>(rest).ok();
                } else if let Some(rest) = l.strip_prefix("S ") {
                    summary = serde_json::from_str::<Value>(rest).ok();
                }
            }
            let died = !killed_after_stop && (hung || !status.success() || summary.is_none());
            if stopped_early {
                harness_note_partial = true;
            }
            if let Some(j) = &summary {
                agg_runs += j["runs"].as_u64().unwrap_or(0);
                agg_steps += j["steps"].as_u64().unwrap_or(0);
                agg_ops += j["ops"].as_u64().unwrap_or(0);
                agg_nontrivial += j["nontrivial"].as_u64().unwrap_or(0);
                for (k, v) in j["faults"].as_object().cloned().unwrap_or_default() {
                    *faults.entry(k).or_insert(0) += v.as_u64().unwrap_or(0);
                }
                for (k, v) in j["probes"].as_object().cloned().unwrap_or_default() {
                    *probes.entry(k).or_insert(0) += v.as_u64().unwrap_or(0);
                }
                for (k, v) in j["other"].as_object().cloned().unwrap_or_default() {
                    *other.entry(k).or_insert(0) += v.as_u64().unwrap_or(0);
                }
                for h in j["hashes"].as_array().cloned().unwrap_or_default() {
                    hashes.insert(h.as_u64().unwrap_or(0));
                }
                for h in j["states"].as_array().cloned().unwrap_or_default() {
                    states.insert(h.as_u64().unwrap_or(0));
                }
                for sm in j["samples"].as_array().cloned().unwrap_or_default() {
                    if samples.len() < 3 {
                        samples.push(sm);
                    }
                }
            } else if progress.is_none() {
                // the process died before its first progress report: count the runs it had announced
                let run = read_cur(&slot.cur);
                if run != u64::MAX && run >= slot.w {
                    agg_runs += ((run - slot.w) / jobs + 1).saturating_sub(slot.first_index);
                }
            } else if let Some(pj) = &progress {
                // the process died: keep the counters of its last progress report
                agg_runs += pj["runs"].as_u64().unwrap_or(0);
                agg_steps += pj["steps"].as_u64().unwrap_or(0);
                agg_ops += pj["ops"].as_u64().unwrap_or(0);
                agg_nontrivial += pj["nontrivial"].as_u64().unwrap_or(0);
            }
            if died {
                // the worker died or hung: a finding at the run it had announced, attributed below by re-running
                // that run in strict mode (stop at the first violation of any property)
                worker_deaths += 1;
                harness_note_partial = true;
                let run = read_cur(&slot.cur);
                use std::os::unix::process::ExitStatusExt;
                let sig = status.signal().unwrap_or(0);
                let strict = Command::new(if slot.checked { std::path::PathBuf::from(std::env::var("RSIM_CHECKED_EXE").unwrap()) } else { exe.clone() })
                    .args(["digest", "--prop", &prop, "--seed", &seed.to_string(), "--start", &run.to_string(), "--count", "1", "--tier", &tier])
                    .env("RSIM_STRICT", "1")
                    .stdout(Stdio::piped())
                    .stderr(Stdio::null())
                    .spawn()
                    .ok()
                    .and_then(|c| wait_output_timeout(c, watchdog_for(&prop, run, plan.watchdog_s) + 5.0));
                let first_other: Option<String> = strict.as_ref().and_then(|o| {
                    let t = String::from_utf8_lossy(o);
                    let sigs = t.split('[').nth(1).map(|x| x.split(']').next().unwrap_or("").to_string()).unwrap_or_default();
                    let all: Vec<String> = sigs.split(',').map(|x| x.trim().to_string()).filter(|x| !x.is_empty()).collect();
                    if all.iter().any(|x| x.starts_with(&format!("{}|", prop))) {
                        None
                    } else {
                        all.into_iter().find(|x| !x.starts_with("HARNESS"))
                    }
                });
                if let Some(o) = first_other {
                    // the crash follows the violation of another property: reported there, not here
                    *other.entry(format!("{} (then the process {} in run {})", o, if hung { "hung".to_string() } else { format!("died with signal {}", sig) }, run)).or_insert(0) += 1;
                } else if hung {
                    let s = format!("{}|watchdog|no_progress", prop);
                    let v = json!({"property": prop, "class": "watchdog", "detail": format!("run {} made no progress for {} s (operation does not terminate)", run, plan.watchdog_s), "op_index": 0});
                    if slot.checked && !found.contains_key(&s) {
                        found_checked.insert(s.clone());
                    }
                    found.entry(s).or_insert((run, v));
                } else {
                    let s = format!("{}|process_killed|signal{}", prop, sig);
                    let v = json!({"property": prop, "class": "process_killed", "detail": format!("worker process ({} profile) died with signal {} (exit {:?}) during run {}", if slot.checked { "checked" } else { "release" }, sig, status.code(), run), "op_index": 0});
                    if slot.checked && !found.contains_key(&s) {
                        found_checked.insert(s.clone());
                    }
                    found.entry(s).or_insert((run, v));
                }
                // continue behind the run that killed the worker
                if run != u64::MAX && slot.restarts < 8 && first_violation_at.is_none() {
                    let done_index = (run - slot.w) / jobs + 1;
                    let end_index = slot.first_index + slot.remaining;
                    if done_index < end_index && t0.elapsed().as_secs_f64() < plan.budget_s {
                        if let Some(ns) = spawn(slot.w, done_index, end_index - done_index, slot.restarts + 1) {
                            slots.push(ns);
                        }
                    }
                }
            }
        }
        std::thread::sleep(std::time::Duration::from_millis(10));
    }
    if harness_error {
        return 2;
    }
    // ---- triage: known findings vs new violations
    let mut exit = 0;
    let mut n_viol = 0i64;
    let mut known_hit: Vec<String> = Vec::new();
    let mut more_sigs: Vec<String> = Vec::new();
    let _ = std::fs::create_dir_all(format!("{}/replays", verif_dir()));
    for (sig, (run, v)) in &found {
        if let Some(k) = known_match(&known, &prop, sig) {
            if !known_hit.contains(&k.signature) {
                println!("KNOWN-FINDING: property={} {} [signature {} first seen at run {}]", prop, k.what, k.signature, run);
                known_hit.push(k.signature.clone());
            }
            continue;
        }
        // new violation: minimise in a child, then confirm the replay file in a fresh process
        n_viol += 1;
        if n_viol > 6 {
            // enough replay files for one batch; the remaining signatures are only counted
            more_sigs.push(sig.clone());
            exit = exit.max(1);
            continue;
        }
        let safe: String = sig.chars().map(|c| if c.is_alphanumeric() { c } else { '_' }).take(60).collect();
        let path = format!("{}/replays/{}-{}-{}-{}.json", verif_dir(), prop, seed, run, safe);
        let is_proc = sig.contains("|watchdog|") || sig.contains("|process_killed|");
        let exe = match std::env::var("RSIM_CHECKED_EXE") {
            Ok(p) if found_checked.contains(sig) => std::path::PathBuf::from(p),
            _ => exe.clone(),
        };
        // minimisation is bounded: the first three signatures, 90 s each; the rest get seed-addressed replay files
        let st = if is_proc || n_viol > 3 || std::env::var("RSIM_NO_MINIMISE").is_ok() { None } else { run_timeout(Command::new(&exe).args(["minimise", "--prop", &prop, "--seed", &seed.to_string(), "--run", &run.to_string(), "--tier", &tier, "--sig", sig, "--out", &path]), 90.0) };
        let wrote = matches!(st, Some(s) if s.success()) && std::path::Path::new(&path).exists();
        if !wrote {
            // fall back to a seed-addressed replay file
            let j = json!({"format": "rsim-replay-1", "scenario": "seed", "property": prop, "seed": seed, "run": run, "tier": tier, "signature": sig, "violation": v});
            let _ = std::fs::write(&path, serde_json::to_string_pretty(&j).unwrap());
        }
        if found_checked.contains(sig) {
            if let Ok(t) = std::fs::read_to_string(&path) {
                if let Ok(mut j) = serde_json::from_str::<Value>(&t) {
                    j["profile"] = json!("checked");
                    let _ = std::fs::write(&path, serde_json::to_string_pretty(&j).unwrap());
                }
            }
        }
        let conf = run_timeout(Command::new(&exe).args(["replay", &path]).stdout(Stdio::null()), watchdog_for(&prop, *run, plan.watchdog_s) + 10.0);
        let reproduced = match conf {
            None => sig.contains("|watchdog|"), // timed out again
            Some(s) => s.code() == Some(1) || (sig.contains("|process_killed|") && { use std::os::unix::process::ExitStatusExt; s.signal().is_some() }),
        };
        if reproduced {
            println!("violation detail: {}", v);
            println!("VIOLATION property={} replay={}", prop, path);
            exit = 1;
        } else {
            eprintln!("HARNESS-ERROR violation {} at run {} did not reproduce from {}", sig, run, path);
            if exit == 0 {
                exit = 2;
            }
        }
    }
    if !more_sigs.is_empty() {
        println!("{} further violation signatures of property {} without a replay file: {}", more_sigs.len(), prop, more_sigs.iter().take(12).cloned().collect::<Vec<_>>().join("; "));
    }
    // ---- evidence
    let wall = t0.elapsed().as_secs_f64();
    let per_hour = if wall > 0.0 { (agg_runs as f64 / wall * 3600.0) as u64 } else { 0 };
    if samples.is_empty() {
        samples.push(json!({"note": "no worker completed a non-trivial run before the batch was stopped", "first_violations": found.keys().take(3).collect::<Vec<_>>()}));
    }
    let mut coverage = json!({
        "evaluations": agg_runs,
        "distinct_nontrivial": hashes.len(),
        "rule": plan.rule,
        "samples": samples,
        "runs": agg_runs,
        "nontrivial_runs": agg_nontrivial,
        "simulated_steps": agg_steps,
        "operations": agg_ops,
        "runs_per_hour": per_hour,
        "seeds_per_hour": per_hour,
        "simulated_time_note": "simulated time = number of intercepted atomic accesses (scheduler steps); the code has no clocks or timers",
        "distinct_interleavings_or_traces": hashes.len(),
        "distinct_abstract_states": states.len(),
        "faults_fired": faults,
        "reach_probes": probes,
        "real_vs_stub": plan.real_vs_stub,
        "other_property_signals": other,
        "known_findings_seen": known_hit,
        "workers": jobs,
        "worker_process_deaths": worker_deaths,
        "stopped_early_after_violation": stopped_early,
        "distinct_counting_note": "each worker keeps at most 150000 distinct hashes; distinct_* are the size of the union and therefore lower bounds in large batches",
        "exhaustive": plan.exhaustive,
    });
    if let Some(extra) = plan.extra.as_object() {
        for (k, v) in extra {
            coverage[k] = v.clone();
        }
    }
    let ev = json!({
        "property_id": prop,
        "tier": tier,
        "seed": seed,
        "level": plan.level,
        "coverage": coverage,
        "assumptions": plan.assumptions,
        "wall_s": wall,
        "violations": n_viol,
    });
    let _ = std::fs::create_dir_all(format!("{}/evidence", verif_dir()));
    if let Err(e) = std::fs::write(format!("{}/evidence/{}.json", verif_dir(), prop), serde_json::to_string_pretty(&ev).unwrap()) {
        eprintln!("HARNESS-ERROR cannot write evidence: {}", e);
        return 2;
    }
    println!("property={} runs={} nontrivial={} distinct={} steps={} wall={:.1}s violations={} known={}", prop, agg_runs, agg_nontrivial, hashes.len(), agg_steps, wall, n_viol, known_hit.len());
    if agg_runs == 0 && !harness_note_partial {
        eprintln!("HARNESS-ERROR no runs executed");
        return 2;
    }
    exit
}

/// Waits for a child with piped stdout; `None` if it had to be killed after `secs`.
fn wait_output_timeout(mut c: std::process::Child, secs: f64) -> Option<Vec<u8>> {
    use std::io::Read;
    let mut so = c.stdout.take()?;
    let jh = std::thread::spawn(move || {
        let mut b = Vec::new();
        let _ = so.read_to_end(&mut b);
        b
    });
    let t0 = Instant::now();
    loop {
        match c.try_wait() {
            Ok(Some(_)) => break,
            Ok(None) => {}
            Err(_) => return None,
        }
        if t0.elapsed().as_secs_f64() > secs {
            let _ = c.kill();
            let _ = c.wait();
            break;
        }
        std::thread::sleep(std::time::Duration::from_millis(10));
    }
    jh.join().ok()
}

/// Runs a command; `None` if it had to be killed after `secs`.
fn run_timeout(cmd: &mut Command, secs: f64) -> Option<std::process::ExitStatus> {
    let mut c = cmd.spawn().ok()?;
    let t0 = Instant::now();
    loop {
        match c.try_wait() {
            Ok(Some(s)) => return Some(s),
            Ok(None) => {}
            Err(_) => return None,
        }
        if t0.elapsed().as_secs_f64() > secs {
            let _ = c.kill();
            let _ = c.wait();
            return None;
        }
        std::thread::sleep(std::time::Duration::from_millis(10));
    }
}

// ---------------------------------------------------------------- minimise / replay

fn cmd_minimise(args: &[String]) -> i32 {
    let prop = arg_val(args, "--prop").unwrap();
    let seed: u64 = arg_val(args, "--seed").unwrap().parse().unwrap();
    let run: u64 = arg_val(args, "--run").unwrap().parse().unwrap();
    let tier = arg_val(args, "--tier").unwrap_or_else(|| "quick".into());
    let sig = arg_val(args, "--sig").unwrap();
    let out = arg_val(args, "--out").unwrap();
    match scen::minimise(&prop, seed, run, &tier, &sig) {
        Some(j) => {
            if std::fs::write(&out, serde_json::to_string_pretty(&j).unwrap()).is_ok() {
                0
            } else {
                2
            }
        }
        None => 3,
    }
}

fn cmd_replay(args: &[String]) -> i32 {
    let Some(path) = args.first() else {
        eprintln!("usage: rsim replay <file>");
        return 2;
    };
    let Ok(text) = std::fs::read_to_string(path) else {
        eprintln!("cannot read {}", path);
        return 2;
    };
    let Ok(j) = serde_json::from_str::<Value>(&text) else {
        eprintln!("invalid JSON in {}", path);
        return 2;
    };
    let want = j["signature"].as_str().unwrap_or("").to_string();
    if j["profile"].as_str() == Some("checked") && !cfg!(debug_assertions) {
        // found by the overflow-checked build: re-execute with that binary
        let alt = std::env::var("RSIM_CHECKED_EXE").ok().map(std::path::PathBuf::from).or_else(|| std::env::current_exe().ok().and_then(|e| e.parent().and_then(|p| p.parent()).map(|p| p.join("checked").join("rsim"))));
        if let Some(alt) = alt.filter(|a| a.exists()) {
            return Command::new(alt).args(["replay", path]).status().ok().and_then(|s| s.code()).unwrap_or(2);
        }
        eprintln!("checked-profile binary not found; build with ./check build");
        return 2;
    }
    let viols = scen::replay(&j);
    let mut hit = false;
    for v in &viols {
        println!("replay: {} {}", v.signature(), v.detail);
        if v.signature() == want {
            hit = true;
        }
    }
    if hit {
        println!("REPRODUCED {}", want);
        1
    } else {
        println!("NOT-REPRODUCED {} ({} other violations)", want, viols.len());
        0
    }
}


/// Diagnostic: a fixed multi-thread scenario (spec JSON, as in a replay file) under many seeded schedules.
/// usage: rsim mtsearch <spec.json> <count> [start]   - prints the first violations found, one replay file each
fn cmd_mtsearch(args: &[String]) -> i32 {
    let Some(path) = args.first() else { return 2 };
    let n: u64 = args.get(1).and_then(|s| s.parse().ok()).unwrap_or(10_000);
    let start: u64 = args.get(2).and_then(|s| s.parse().ok()).unwrap_or(0);
    let j: Value = match std::fs::read_to_string(path).ok().and_then(|s| serde_json::from_str(&s).ok()) {
        Some(j) => j,
        None => return 2,
    };
    let specj = if j.get("spec").is_some() { j["spec"].clone() } else { j.clone() };
    let Some(base) = mtscen::MtSpec::from_json(&specj) else { return 2 };
    let nthreads = base.programs.len() as u64;
    let mut found = 0;
    for i in start..start + n {
        let mut rng = rng::Rng::derive(0xABBA, i, 3);
        let mut spec = mtscen::MtSpec::from_json(&specj).unwrap();
        spec.schedule = None;
        spec.sched_seed = rng.next_u64();
        spec.strategy = match rng.below(3) {
            0 => mt::Strategy::StallBeforeCas(*rng.pick(&[250u32, 500])),
            _ => mt::Strategy::Victim { v: rng.below(nthreads) as u32, p: *rng.pick(&[30u32, 60, 120, 250]), lo: *rng.pick(&[10u32, 40, 80]), hi: *rng.pick(&[150u32, 400, 900]) },
        };
        let out = mtscen::run_spec(&spec, false);
        if !out.viols.is_empty() {
            found += 1;
            for v in &out.viols {
                println!("schedule {} -> {} {}", i, v.signature(), &v.detail[..v.detail.len().min(300)]);
            }
            let frozen = mtscen::freeze(&spec, &out);
            let f = format!("/dev/shm/mtsearch-{}.json", i);
            let _ = std::fs::write(&f, serde_json::to_string_pretty(&json!({"format": "rsim-replay-1", "scenario": "mt", "property": out.viols[0].prop, "seed": 0, "run": i, "signature": out.viols[0].signature(), "spec": frozen.to_json(), "violation": out.viols[0].to_json()})).unwrap());
            println!("  replay {}", f);
            if found >= 5 {
                break;
            }
        }
    }
    println!("mtsearch: {} schedules, {} with violations", n, found);
    0
}
