//! Driver for single-client scenarios: generation, execution, replay, minimisation.

use crate::arena::*;
use crate::exec::*;
use crate::gen::{self, Profile, View};
use crate::hook::ST;
use crate::ops::*;
use crate::rng::Rng;
use rarena_allocator::{sync, unsync, Allocator};
use serde_json::{json, Value};
use std::collections::BTreeMap;
use std::path::PathBuf;

#[derive(Clone, Debug, Default)]
pub struct CaseOut {
    pub viols: Vec<Violation>,
    pub ops: Vec<Op>,
    pub stats: ExecStats,
    pub steps: u64,
    pub trace_hash: u64,
    pub probes: BTreeMap<(u32, u8, u8), u64>,
    pub spurious_fired: u64,
    pub max_call_steps: u64,
    pub build_failed: bool,
}

pub fn scratch_dir() -> PathBuf {
    let base = if std::path::Path::new("/dev/shm").is_dir() { PathBuf::from("/dev/shm") } else { std::env::temp_dir() };
    let d = base.join(format!("rsim-{}", std::process::id()));
    let _ = std::fs::create_dir_all(&d);
    d
}

pub fn cleanup_scratch() {
    let base = if std::path::Path::new("/dev/shm").is_dir() { PathBuf::from("/dev/shm") } else { std::env::temp_dir() };
    let _ = std::fs::remove_dir_all(base.join(format!("rsim-{}", std::process::id())));
}

fn reset_st() {
    ST.with(|st| st.borrow_mut().reset());
}

fn collect<A: Ar>(e: &mut Exec<A>, out: &mut CaseOut) {
    out.viols = e.viols.clone();
    out.stats = e.stats.clone();
    ST.with(|st| {
        let st = st.borrow();
        out.steps = st.total_steps;
        out.trace_hash = st.trace_hash;
        out.probes = st.probes.clone();
        out.spurious_fired = st.spurious_fired;
        out.max_call_steps = st.max_call_steps;
    });
}

fn view<A: Ar>(e: &Exec<A>) -> View {
    let a = e.a();
    let s = a.snap();
    let mut top = None;
    for (i, l) in e.live.iter().enumerate() {
        if l.r.bcap > 0 && l.r.boff + l.r.bcap == s.allocated as usize {
            top = Some(i);
        }
    }
    View::from_snap(&s, a.capacity(), a.data_offset(), e.live.len(), e.kept.len(), e.live_arenas(), e.ro, top)
}

pub struct CaseSpec {
    pub cfg: Cfg,
    pub spurious_seed: Option<u64>,
    pub finish_order: u64,
    pub remove_on_drop: bool,
    /// truncate is also issued while other arena values / owned handles are alive (C18 histories)
    pub shared_truncate: bool,
    /// the file is marked remove-on-drop only at the end of the history, on whatever session is open then
    /// (writable, copy-on-write or read-only after the reopens of the history) — C13 histories
    pub late_remove: bool,
}

impl CaseSpec {
    pub fn to_json(&self) -> Value {
        json!({"cfg": self.cfg.to_json(), "spurious_seed": self.spurious_seed, "finish_order": self.finish_order, "remove_on_drop": self.remove_on_drop, "shared_truncate": self.shared_truncate, "late_remove": self.late_remove})
    }
    pub fn from_json(v: &Value) -> Option<CaseSpec> {
        Some(CaseSpec {
            cfg: Cfg::from_json(v.get("cfg")?)?,
            spurious_seed: v.get("spurious_seed").and_then(|x| x.as_u64()),
            finish_order: v.get("finish_order")?.as_u64()?,
            remove_on_drop: v.get("remove_on_drop").and_then(|x| x.as_bool()).unwrap_or(false),
            shared_truncate: v.get("shared_truncate").and_then(|x| x.as_bool()).unwrap_or(false),
            late_remove: v.get("late_remove").and_then(|x| x.as_bool()).unwrap_or(false),
        })
    }
}

fn file_path(tag: u64) -> PathBuf {
    scratch_dir().join(format!("a{}.arena", tag))
}

fn run_generic<A: Ar>(spec: &CaseSpec, tag: u64, mut source: impl FnMut(&Exec<A>) -> Option<Op>) -> CaseOut {
    let mut out = CaseOut::default();
    reset_st();
    let path = if spec.cfg.backend == Backend::File { Some(file_path(tag)) } else { None };
    let opts = ExecOpts { check_reserved: true, spurious: spec.spurious_seed.map(|s| (s, 1, 8)), crash_snaps: None };
    let mut e = match Exec::<A>::new(spec.cfg, path.clone(), opts) {
        Ok(e) => e,
        Err(_) => {
            out.build_failed = true;
            return out;
        }
    };
    if spec.remove_on_drop && path.is_some() {
        e.a().remove_on_drop(true);
        e.remove_on_drop = true;
    }
    e.shared_truncate = spec.shared_truncate;
    e.late_remove = spec.late_remove && path.is_some() && !spec.remove_on_drop;
    e.global_checks();
    loop {
        if e.dead {
            break;
        }
        let Some(op) = source(&e) else { break };
        out.ops.push(op.clone());
        if std::env::var("RSIM_TRACE").is_ok() {
            eprintln!("op {:?} | pre {}", op, e.a().snap().to_json());
        }
        e.step(&op);
    }
    e.finish(spec.finish_order);
    collect(&mut e, &mut out);
    drop(e);
    if let Some(p) = path {
        let _ = std::fs::remove_file(p);
    }
    out
}

/// Generates and runs one history for `profile`; every random choice derives from (seed, run).
pub fn run_generated(profile: &Profile, seed: u64, run: u64) -> (CaseSpec, CaseOut) {
    let mut crng = Rng::derive(seed, run, 1);
    let cfg = gen::gen_cfg(&mut crng, profile);
    let n = gen::history_len(&mut crng, profile);
    let spec = CaseSpec {
        cfg,
        spurious_seed: if profile.spurious && cfg.sync && crng.chance(1, 2) { Some(crng.next_u64()) } else { None },
        finish_order: crng.next_u64(),
        remove_on_drop: cfg.backend == Backend::File && profile.prop == "C13" && crng.chance(1, 2),
        // a quarter of the C18 histories: the others keep truncating unshared arenas only, so that the known
        // finding about shared ones does not end every long history
        shared_truncate: profile.prop == "C18" && crate::rng::mix(run) % 4 == 0,
        // (a hash of the run index, not a draw: the histories of the other runs stay what they were)
        late_remove: cfg.backend == Backend::File && profile.prop == "C13" && crate::rng::mix(run ^ 0x13) % 3 == 0,
    };
    let mut orng = Rng::derive(seed, run, 2);
    let mut count = 0u64;
    let out = if cfg.sync {
        run_generic::<sync::Arena>(&spec, run, |e| {
            if count >= n {
                return None;
            }
            count += 1;
            Some(gen::next_op(&mut orng, profile, &cfg, &view(e)))
        })
    } else {
        run_generic::<unsync::Arena>(&spec, run, |e| {
            if count >= n {
                return None;
            }
            count += 1;
            Some(gen::next_op(&mut orng, profile, &cfg, &view(e)))
        })
    };
    (spec, out)
}

/// Re-executes an explicit history.
pub fn run_explicit(spec: &CaseSpec, ops: &[Op], tag: u64) -> CaseOut {
    let mut i = 0usize;
    if spec.cfg.sync {
        run_generic::<sync::Arena>(spec, tag, |_| {
            let o = ops.get(i).cloned();
            i += 1;
            o
        })
    } else {
        run_generic::<unsync::Arena>(spec, tag, |_| {
            let o = ops.get(i).cloned();
            i += 1;
            o
        })
    }
}

/// Delta-debugging style minimisation of the op list; `keep` decides whether a candidate still fails the same way.
pub fn minimise(spec: &CaseSpec, ops: &[Op], sig: &str, budget: usize, mut run: impl FnMut(&CaseSpec, &[Op]) -> Vec<Violation>) -> Vec<Op> {
    minimise_ops(ops, sig, budget, |o| run(spec, o))
}

pub fn minimise_ops(ops: &[Op], sig: &str, budget: usize, mut run: impl FnMut(&[Op]) -> Vec<Violation>) -> Vec<Op> {
    let mut cur: Vec<Op> = ops.to_vec();
    let mut tries = 0usize;
    // cut the tail after the failing op first
    let mut chunk = (cur.len() / 2).max(1);
    while chunk >= 1 && tries < budget {
        let mut i = 0;
        let mut progressed = false;
        while i < cur.len() && tries < budget {
            let end = (i + chunk).min(cur.len());
            let mut cand = cur.clone();
            cand.drain(i..end);
            tries += 1;
            let v = run(&cand);
            if v.iter().any(|x| x.signature() == sig) {
                cur = cand;
                progressed = true;
            } else {
                i += chunk;
            }
        }
        if chunk == 1 && !progressed {
            break;
        }
        if !progressed || chunk > 1 {
            chunk = if chunk == 1 { 1 } else { chunk / 2 };
        }
    }
    // shrink allocation sizes
    for i in 0..cur.len() {
        if tries >= budget {
            break;
        }
        if let Op::Alloc { kind, ty, size, owned, arena } = cur[i].clone() {
            for s in [1u32, 8, size / 2] {
                if s < size && tries < budget {
                    let mut cand = cur.clone();
                    cand[i] = Op::Alloc { kind, ty, size: s, owned, arena };
                    tries += 1;
                    if run(&cand).iter().any(|x| x.signature() == sig) {
                        cur = cand;
                        break;
                    }
                }
            }
        }
    }
    cur
}

pub fn replay_json(prop: &str, kind: &str, seed: u64, run: u64, spec: &CaseSpec, ops: &[Op], v: &Violation, extra: Value) -> Value {
    json!({
        "format": "rsim-replay-1",
        "scenario": kind,
        "property": prop,
        "seed": seed,
        "run": run,
        "spec": spec.to_json(),
        "ops": ops_to_json(ops),
        "violation": v.to_json(),
        "signature": v.signature(),
        "extra": extra,
    })
}
