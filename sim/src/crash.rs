//! CRASH scenario (C06): every atomic step of every operation of a file-backed history is a
//! crash point. At each one the simulator copies `memory()` (what the page cache holds), later
//! writes the copy to a fresh file, opens it with the real `map_mut` and runs a post-crash
//! workload under a per-call step budget.

use crate::arena::*;
use crate::exec::*;
use crate::gen::{self, View};
use crate::hook::{self, Mode, ST};
use crate::ops::*;
use crate::rng::Rng;
use crate::st::CaseSpec;
use rarena_allocator::{sync, unsync, Allocator};
use std::path::PathBuf;

#[derive(Default, Clone, Debug)]
pub struct CrashOut {
    pub viols: Vec<Violation>,
    pub ops: Vec<Op>,
    pub stats: ExecStats,
    pub steps: u64,
    pub crash_points: u64,
    pub crash_points_in_op: u64,
    pub crash_points_with_obligations: u64,
    pub post_ops: u64,
    pub max_post_call_steps: u64,
    pub trace_hash: u64,
    pub skipped: bool,
    pub first_bad_point: Option<(usize, u64)>,
}

pub struct Point {
    pub op_index: usize,
    pub step: u64,
    pub bytes: Vec<u8>,
    /// ranges returned to the caller and not being released at this point
    pub obligations: Vec<Range>,
    pub boundary: bool,
    pub op_desc: String,
    /// the atomic access that preceded the crash point: (line, kind, outcome)
    pub after: (u32, u8, u8),
    /// line of an outstanding removal mark at the crash point
    pub mark: Option<u32>,
}

pub const POST_CRASH_CALL_BUDGET: u64 = 4000;

fn obligations<A: Ar>(e: &Exec<A>) -> Vec<Range> {
    e.live.iter().map(|l| l.r.clone()).chain(e.kept.iter().cloned()).filter(|r| r.cap > 0).collect()
}

fn view<A: Ar>(e: &Exec<A>) -> View {
    let a = e.a();
    let s = a.snap();
    View::from_snap(&s, a.capacity(), a.data_offset(), e.live.len(), e.kept.len(), e.live_arenas(), e.ro, None)
}

/// Post-crash check of one crash point. Returns a violation (class, detail) if any.
pub fn check_point<A: Ar>(cfg: &Cfg, pt: &Point, path: &PathBuf, out: &mut CrashOut) -> Option<(&'static str, String)> {
    hook::set_mode(Mode::Off);
    if std::fs::write(path, &pt.bytes).is_err() {
        return None;
    }
    // the capacity of the session that crashed (a truncate may have grown it beyond the configured one)
    let opts = cfg.options().with_capacity(cfg.cap.max(pt.bytes.len() as u32)).with_read(true).with_write(true);
    let arena: A = match unsafe { opts.map_mut::<A, _>(path) } {
        Ok(a) => a,
        Err(e) => return Some(("reopen_failed", format!("file image does not open again: {}", e))),
    };
    let cur = arena.allocated();
    if cur < arena.data_offset() || cur > arena.capacity() {
        return Some(("cursor_out_of_range", format!("cursor {} not within [{}, {}]", cur, arena.data_offset(), arena.capacity())));
    }
    let mem = unsafe { std::slice::from_raw_parts(arena.raw_ptr(), arena.capacity()) };
    for r in &pt.obligations {
        if r.off + r.cap > mem.len() || mem[r.off..r.off + r.cap] != r.bytes[..] {
            return Some(("bytes_lost", format!("range id={} [{},{}) returned before the crash does not hold its bytes after reopening", r.id, r.off, r.off + r.cap)));
        }
        if r.off + r.cap > cur {
            return Some(("live_above_cursor", format!("range id={} [{},{}) returned before the crash lies above the reopened cursor {}", r.id, r.off, r.off + r.cap, cur)));
        }
    }
    // ---- post-crash workload under the per-call step budget
    let steps_before = ST.with(|st| st.borrow().total_steps);
    let mut e = Exec::<A>::with_arena(*cfg, Some(path.clone()), arena, ExecOpts { check_reserved: false, spurious: None, crash_snaps: None });
    e.only_props = Some(vec!["C01", "C04", "C07", "CRASH"]);
    e.kept = pt.obligations.clone();
    // a legitimate call walks at most maximum_retries (<= 5) times over a list of <= 128 nodes: < 1000 steps
    ST.with(|st| st.borrow_mut().call_budget = POST_CRASH_CALL_BUDGET);
    let mut n = 0u64;
    let mut doit = |e: &mut Exec<A>, op: Op| {
        if !e.dead {
            e.step(&op);
            n += 1;
        }
    };
    doit(&mut e, Op::Fill);
    // drain the list: request exactly what each segment offers
    for round in 0..3 {
        let nodes = e.a().snap().nodes;
        for nd in nodes.iter().take(24) {
            let sz = nd.1.max(1).min(4096);
            doit(&mut e, Op::Alloc { kind: if round == 1 { AllocKind::Aligned } else { AllocKind::Bytes }, ty: 4, size: if round == 1 { sz.saturating_sub(15) } else { sz }, owned: false, arena: 0 });
        }
        doit(&mut e, Op::Alloc { kind: AllocKind::Typed, ty: 9, size: 0, owned: false, arena: 0 });
        doit(&mut e, Op::Alloc { kind: AllocKind::Bytes, ty: 0, size: 9, owned: false, arena: 0 });
        for k in 0..6 {
            doit(&mut e, Op::Drop { h: k * 3 + round });
        }
    }
    doit(&mut e, Op::DiscardFreelist);
    doit(&mut e, Op::Alloc { kind: AllocKind::Bytes, ty: 0, size: 8, owned: false, arena: 0 });
    out.post_ops += n;
    let mc = ST.with(|st| st.borrow().max_call_steps);
    out.max_post_call_steps = out.max_post_call_steps.max(mc);
    let _ = steps_before;
    let res = e.viols.first().map(|v| {
        let class: &'static str = match (v.prop, v.class) {
            ("C07", _) | (_, "nontermination") => "post_crash_nontermination",
            ("C01", "overlap") => "live_range_handed_out_again",
            ("C01", "bytes_changed") => "live_bytes_changed_after_reopen",
            ("C01", _) => "live_range_out_of_bounds",
            _ => "post_crash_crash",
        };
        (class, v.detail.clone())
    });
    e.finish(1);
    hook::set_mode(Mode::Off);
    res
}

fn run_generic<A: Ar>(spec: &CaseSpec, tag: u64, every: u64, mut source: impl FnMut(&View, &Cfg) -> Option<Op>) -> CrashOut {
    let mut out = CrashOut::default();
    ST.with(|st| st.borrow_mut().reset());
    let dir = crate::st::scratch_dir();
    let path = dir.join(format!("c{}.arena", tag));
    let crash_path = dir.join(format!("c{}.crash", tag));
    let opts = ExecOpts { check_reserved: true, spurious: None, crash_snaps: if A::SYNC { Some(1) } else { None } };
    let Ok(mut e) = Exec::<A>::new(spec.cfg, Some(path.clone()), opts) else {
        out.skipped = true;
        return out;
    };
    let mut points: Vec<Point> = Vec::new();
    let mut i = 0usize;
    // obligations of the last writable session (what a copy-on-write / read-only session must leave in the file)
    let mut durable_ob: Vec<Range> = Vec::new();
    loop {
        if e.dead {
            break;
        }
        let v = view(&e);
        let Some(op) = source(&v, &spec.cfg) else { break };
        out.ops.push(op.clone());
        // boundary crash point (before the first access of the operation). In a writable session the image is the
        // shared mapping; in a copy-on-write / read-only session nothing of the mapping reaches the file: the image
        // is the file, and it owes what the last writable session had handed out
        let nondurable = e.ro || e.cow;
        let ob = if nondurable { durable_ob.clone() } else { obligations(&e) };
        if !nondurable {
            durable_ob = ob.clone();
        }
        let mem = if nondurable { std::fs::read(&path).unwrap_or_default() } else { unsafe { std::slice::from_raw_parts(e.a().raw_ptr(), e.a().capacity()) }.to_vec() };
        let step0 = ST.with(|st| st.borrow().total_steps);
        points.push(Point { op_index: i, step: step0, bytes: mem, obligations: ob.clone(), boundary: true, op_desc: format!("{:?}", op), after: (0, 0, 0), mark: None });
        // the range released by this operation carries no obligation once the release has begun
        let releasing: Option<u64> = match &op {
            Op::Drop { h } if !e.live.is_empty() => Some(e.live[h % e.live.len()].r.id),
            Op::Dealloc { k } if !e.kept.is_empty() => Some(e.kept[k % e.kept.len()].id),
            _ => None,
        };
        ST.with(|st| st.borrow_mut().snaps.clear());
        e.step(&op);
        let snaps = ST.with(|st| std::mem::take(&mut st.borrow_mut().snaps));
        // no crash points inside close + reopen (the mapping changes hands) nor inside the calls of a session whose
        // mapping is not the file
        let snaps = if nondurable || matches!(op, Op::Reopen { .. } | Op::Truncate(_)) { Vec::new() } else { snaps };
        // clear(): the caller promises not to use anything handed out before - no obligations inside it
        let ob_in: Vec<Range> = if matches!(op, Op::Clear | Op::Rewind(_)) { Vec::new() } else { ob.into_iter().filter(|r| Some(r.id) != releasing).collect() };
        for (step, bytes, la, om) in snaps {
            points.push(Point { op_index: i, step, bytes, obligations: ob_in.clone(), boundary: false, op_desc: format!("{:?}", op), after: la, mark: om });
        }
        i += 1;
    }
    if !e.dead {
        let nondurable = e.ro || e.cow;
        let ob = if nondurable { durable_ob.clone() } else { obligations(&e) };
        let mem = if nondurable { std::fs::read(&path).unwrap_or_default() } else { unsafe { std::slice::from_raw_parts(e.a().raw_ptr(), e.a().capacity()) }.to_vec() };
        let step0 = ST.with(|st| st.borrow().total_steps);
        points.push(Point { op_index: i, step: step0, bytes: mem, obligations: ob, boundary: true, op_desc: "end".into(), after: (0, 0, 0), mark: None });
    }
    out.viols.extend(e.viols.iter().cloned());
    out.stats = e.stats.clone();
    out.steps = ST.with(|st| st.borrow().total_steps);
    out.trace_hash = ST.with(|st| st.borrow().trace_hash);
    e.finish(1);
    drop(e);
    let _ = std::fs::remove_file(&path);
    // ---- enumerate the crash points
    for (k, pt) in points.iter().enumerate() {
        if !pt.boundary && every > 1 && (k as u64) % every != 0 {
            continue;
        }
        out.crash_points += 1;
        if !pt.boundary {
            out.crash_points_in_op += 1;
        }
        if !pt.obligations.is_empty() {
            out.crash_points_with_obligations += 1;
        }
        if let Some((class, detail)) = check_point::<A>(&spec.cfg, pt, &crash_path, &mut out) {
            if out.viols.iter().all(|v| v.class != class) {
                let site = if let Some(ml) = pt.mark { format!("mark-outstanding {}", crate::scen::linemap().func(ml)) } else if pt.after.0 == 0 { "operation boundary".to_string() } else { format!("after {}:{}@{}", crate::hook::kind_name(pt.after.1), ["fail", "ok", "spurious"][pt.after.2 as usize % 3], crate::scen::linemap().func(pt.after.0)) };
                out.viols.push(Violation { prop: "C06", class, detail: format!("[{}] crash at atomic step {} ({}) of op #{} {}: {}", site, pt.step, if pt.boundary { "operation boundary" } else { "inside the operation" }, pt.op_index, pt.op_desc, detail), op: pt.op_index });
                if out.first_bad_point.is_none() {
                    out.first_bad_point = Some((pt.op_index, pt.step));
                }
            }
        }
    }
    let _ = std::fs::remove_file(&crash_path);
    out
}

pub fn run(spec: &CaseSpec, tag: u64, every: u64, source: impl FnMut(&View, &Cfg) -> Option<Op>) -> CrashOut {
    if spec.cfg.sync {
        run_generic::<sync::Arena>(spec, tag, every, source)
    } else {
        run_generic::<unsync::Arena>(spec, tag, every, source)
    }
}

pub fn generate(seed: u64, run_idx: u64, every: u64) -> (CaseSpec, CrashOut) {
    let p = gen::profile("C06");
    let mut crng = Rng::derive(seed, run_idx, 1);
    let mut cfg = gen::gen_cfg(&mut crng, &p);
    cfg.sync = crng.chance(4, 5);
    cfg.cap = cfg.cap.min(1024);
    let n = match crng.below(4) {
        0 => crng.range(2, 6),
        1..=2 => crng.range(5, 16),
        _ => crng.range(12, 36),
    };
    let spec = CaseSpec { cfg, spurious_seed: None, finish_order: 1, remove_on_drop: false, shared_truncate: false, late_remove: false };
    let mut orng = Rng::derive(seed, run_idx, 2);
    let mut count = 0;
    let out = run(&spec, run_idx, every, |v, c| {
        if count >= n {
            return None;
        }
        count += 1;
        Some(gen::next_op(&mut orng, &p, c, v))
    });
    (spec, out)
}

pub fn replay(spec: &CaseSpec, ops: &[Op], tag: u64, every: u64) -> CrashOut {
    let mut i = 0;
    run(spec, tag, every, |_, _| {
        let o = ops.get(i).cloned();
        i += 1;
        o
    })
}

/// C06 with threads in flight: checks the crash points recorded by a scheduled multi-thread run.
pub fn check_mt_points(cfg: &Cfg, pts: &[crate::mt::CrashPt], tag: u64, out: &mut CrashOut) {
    let crash_path = crate::st::scratch_dir().join(format!("c{}.mtcrash", tag));
    // consecutive crash points often hold byte-identical images (only loads happened in between): judge each image once
    let mut memo: std::collections::BTreeMap<u64, Option<(&'static str, String)>> = std::collections::BTreeMap::new();
    for cp in pts {
        out.crash_points += 1;
        out.crash_points_in_op += 1;
        if !cp.obligations.is_empty() {
            out.crash_points_with_obligations += 1;
        }
        let pt = Point {
            op_index: 0,
            step: cp.step,
            bytes: cp.bytes.clone(),
            obligations: cp.obligations.iter().map(|r| Range { id: r.id, off: r.off, cap: r.cap, boff: r.off, bcap: r.cap, bytes: r.bytes.clone(), kind: AllocKind::Bytes, ty: 0, owned: false, embeds: 0, drop_id: None }).collect(),
            boundary: false,
            op_desc: format!("{} threads in flight", cp.in_flight),
            after: (0, 0, 0),
            mark: None,
        };
        let mut h = 0u64;
        for (i, b) in cp.bytes.chunks(8).enumerate() {
            let mut w = [0u8; 8];
            w[..b.len()].copy_from_slice(b);
            h = crate::rng::hash_add(h, u64::from_le_bytes(w) ^ (i as u64) << 48);
        }
        for r in &cp.obligations {
            h = crate::rng::hash_add(h, r.id ^ ((r.off as u64) << 32));
        }
        let res = match memo.get(&h) {
            Some(r) => r.clone(),
            None => {
                let r = check_point::<sync::Arena>(cfg, &pt, &crash_path, out);
                memo.insert(h, r.clone());
                r
            }
        };
        if let Some((class, detail)) = res {
            if out.viols.iter().all(|v| !(v.class == class && v.detail.starts_with(&format!("[{}]", cp.site)))) {
                out.viols.push(Violation { prop: "C06", class, detail: format!("[{}] crash at global atomic step {} with {} calls in flight: {}", cp.site, cp.step, cp.in_flight, detail), op: 0 });
            }
        }
    }
    let _ = std::fs::remove_file(&crash_path);
}
