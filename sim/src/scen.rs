//! Scenario registry: which scenario decides which property, budgets, evidence texts.

use crate::exec::Violation;
use crate::gen;
use crate::hook::{kind_name, LineMap};
use crate::ops::*;
use crate::mtscen::{self, MtFlavour, MtOut, MtSpec};
use crate::st::{self, CaseOut, CaseSpec};
use crate::RunSummary;
use serde_json::{json, Value};
use std::collections::BTreeMap;
use std::sync::OnceLock;

pub struct Plan {
    pub runs: u64,
    pub budget_s: f64,
    pub watchdog_s: f64,
    pub level: &'static str,
    pub rule: String,
    pub real_vs_stub: Value,
    pub assumptions: Vec<String>,
    pub exhaustive: bool,
    pub extra: Value,
}

pub fn linemap() -> &'static LineMap {
    static LM: OnceLock<LineMap> = OnceLock::new();
    LM.get_or_init(|| LineMap::load("/repo/rarena-allocator/src/sync.rs"))
}

fn real_vs_stub() -> Value {
    json!({
        "real": "all of rarena-allocator built from /repo's working tree: sync::Arena, unsync::Arena, Vec / anonymous-mmap / file-mmap backends (real mmap, ftruncate, fsync on tmpfs files), all handle types and Drop paths",
        "replaced": "core atomics -> #[repr(transparent)] wrapper performing the same hardware operation after asking the simulator (feature verif-hooks); OS thread scheduler -> baton scheduler; kill -9 -> memory snapshot + reopen",
        "stubbed": "nothing in rarena is stubbed"
    })
}

const ST_PROPS: [&str; 11] = ["C01", "C03", "C04", "C05", "C08", "C10", "C13", "C16", "C17", "C18", "C20"];
const MT_PROPS: [&str; 4] = ["C02", "C07", "C12", "C13"];

/// Which runs of a property's batch are scheduled multi-thread runs.
fn mt_run(prop: &str, run: u64) -> bool {
    match prop {
        "C02" | "C07" | "C12" => true,
        "C13" => crate::rng::mix(run) % 2 == 1,
        // zero-fill must also hold when the released space is recycled under an interleaving
        "C08" | "C03" | "C04" => crate::rng::mix(run) % 16 == 15,
        _ => false,
    }
}

/// The first runs of the C04 batch: one arena of (almost) 4 GiB with the cursor put a few bytes below its end, where
/// `cursor + alignment` no longer fits in `u32`. The arena is a lazily committed Vec; creating it zero-fills it once
/// (≈ 1 s, 4 GiB resident for the duration of the run), which is why there are only two such runs per batch - one on a
/// release worker, one on a checked worker.
pub const HUGE_RUNS: u64 = 2;

fn huge_case(seed: u64, run: u64) -> (st::CaseSpec, Vec<Op>) {
    use crate::arena::{AllocKind, Backend, Cfg};
    use crate::ops::Pos;
    let mut rng = crate::rng::Rng::derive(seed, run, 77);
    let cap = u32::MAX - rng.below(9) as u32;
    let cfg = Cfg { sync: rng.chance(1, 2), backend: Backend::Vec, unify: rng.chance(1, 2), freelist: 1 + rng.below(2) as u8, cap, reserved: 0, min_seg: 8, max_align: 8, retries: 3, magic: 0, offset: 0 };
    let spec = st::CaseSpec { cfg, spurious_seed: None, finish_order: 1, remove_on_drop: false, shared_truncate: false, late_remove: false };
    // a grid instead of a sample (the arena is the expensive part, the calls are not): the cursor 0..=17 bytes below
    // the end x every alignment class of the menu x {alloc::<T>, alloc_aligned_bytes::<T>(0..=2)}, each handle
    // released again; then two small handles in the last bytes released in order (their extents cannot become segments)
    let mut ops = Vec::new();
    let _ = rng.next_u64();
    for below in 0..=17u32 {
        for ty in [1u8, 2, 3, 4, 5, 9, 11, 13, 14] {
            for variant in 0..4u32 {
                ops.push(Op::Rewind(Pos::Start(cap - below)));
                ops.push(if variant == 0 {
                    Op::Alloc { kind: AllocKind::Typed, ty, size: 0, owned: below % 2 == 1, arena: 0 }
                } else {
                    Op::Alloc { kind: AllocKind::Aligned, ty, size: variant - 1, owned: false, arena: 0 }
                });
                ops.push(Op::Drop { h: 0 });
            }
        }
    }
    ops.push(Op::Rewind(Pos::Start(cap - 12)));
    ops.push(Op::Alloc { kind: AllocKind::Bytes, ty: 0, size: 5, owned: false, arena: 0 });
    ops.push(Op::Alloc { kind: AllocKind::Bytes, ty: 0, size: 3, owned: false, arena: 0 });
    ops.push(Op::Drop { h: 0 });
    ops.push(Op::Drop { h: 0 });
    (spec, ops)
}

/// One third of the C02 / C07 / C12 runs are recycle-heavy runs with a stalled victim thread.
fn mt_spec(prop: &str, seed: u64, run: u64) -> MtSpec {
    if matches!(prop, "C02" | "C07" | "C12") && crate::rng::mix(run ^ 0x5eed) % 3 == 0 {
        let mut spec = mtscen::gen_spec(seed, run, MtFlavour::Recycle);
        spec.hb = prop == "C12";
        return spec;
    }
    mtscen::gen_spec(seed, run, mt_flavour(prop))
}

fn mt_flavour(prop: &str) -> MtFlavour {
    match prop {
        "C02" | "C08" | "C03" => MtFlavour::Safety,
        "C04" => MtFlavour::Boundary,
        "C07" => MtFlavour::Liveness,
        "C12" => MtFlavour::Hb,
        _ => MtFlavour::Lifecycle,
    }
}

fn summarise_mt(prop: &str, spec: &MtSpec, out: &MtOut) -> RunSummary {
    let mut faults = BTreeMap::new();
    faults.insert("spurious_cas".to_string(), out.spurious_fired);
    faults.insert("context_switch".to_string(), out.switches);
    faults.insert("busy_wait_park".to_string(), out.parks);
    faults.insert("confirmation_phase".to_string(), out.confirms);
    faults.insert("teardown_in_simulation".to_string(), out.teardowns);
    faults.insert("aba_cas_success".to_string(), if out.aba.is_empty() { 0 } else { 1 });
    faults.insert("removal_mark_wiped_by_store".to_string(), if out.mark_wiped.is_empty() { 0 } else { 1 });
    faults.insert(format!("strategy_{}", spec.strategy.name()), 1);
    let mut probes = BTreeMap::new();
    for (k, v) in &out.probes {
        probes.insert(probe_name(k), *v);
    }
    let cas_fail = out.probes.iter().any(|(k, v)| (k.1 == 2 || k.1 == 3) && k.2 == 0 && *v > 0);
    let nontrivial = match prop {
        "C02" | "C07" => out.overlapped || cas_fail,
        "C12" => out.hb_checks > 4 && out.switches >= 2,
        _ => out.switches >= 2,
    } && !out.setup_failed;
    RunSummary {
        viols: out.viols.clone(),
        nontrivial,
        hash: out.trace_hash,
        state_hash: out.trace_hash ^ (out.end_nodes as u64),
        steps: out.steps,
        ops: out.ops_done as u64,
        faults,
        probes,
        sample: Some(json!({"cfg": spec.cfg.to_json(), "threads": spec.programs.len(), "strategy": spec.strategy.name(),
            "programs": spec.programs.iter().map(|p| p.iter().take(8).map(|o| o.to_json()).collect::<Vec<_>>()).collect::<Vec<_>>(),
            "schedule_rle_prefix": out.schedule.iter().take(24).map(|(t, n)| json!([t, n])).collect::<Vec<_>>(), "steps": out.steps})),
    }
}

pub fn plan(prop: &str, tier: &str) -> Option<Plan> {
    let quick = tier == "quick";
    let base = |runs_q: u64, runs_t: u64, rule: &str| Plan {
        runs: if quick { runs_q } else { runs_t },
        budget_s: if quick { 480.0 } else { 3600.0 },
        watchdog_s: 60.0,
        level: "exploration",
        rule: rule.to_string(),
        real_vs_stub: real_vs_stub(),
        assumptions: vec![
            "Linux/x86-64, std, features memmap on, loom/tracing off".into(),
            "sampling of seeded histories, not enumeration: a clean batch is evidence, not proof".into(),
        ],
        exhaustive: false,
        extra: json!({}),
    };
    Some(match prop {
        "C01" => base(1_500_000, 30_000_000, "seeded single-client histories (swarm over flavour x freelist x backend x layout x reserved x min segment x max alignment x capacity) of alloc_bytes/alloc_aligned_bytes/alloc<T>/owned variants/drop/detach/dealloc, arena exhaustion as the only fault; after every step every live range is checked for bounds, disjointness and byte equality with the shadow store. Non-trivial = at least one allocation was served from a recycled segment while >= 2 other ranges were live; distinct = distinct hash of the sequence of abstract states (cursor, free-list shape, live set)"),
        "C03" => base(1_500_000, 30_000_000, "histories engineered for cursor residues (1..3 byte steps, odd sizes) and typed slow-path requests; per call: capacity / offset / address alignment / zero-size behaviour. Non-trivial = at least one typed or aligned request served from a recycled segment, or a zero-size request on a full arena; distinct by abstract state sequence hash"),
        "C04" => base(1_000_000, 20_000_000, "boundary-dense request sizes (0, 1, remaining+-d, cap+-d, 2^31+-d, u32::MAX-allocated+-d, u32::MAX-k, random) on arbitrary reachable states incl. read-only sessions; error => state snapshot identical; panic / out-of-arena access (hook address check, Meta::clear range check) => violation. Non-trivial = at least one request >= 2^31 or within 3 of remaining()/cap failed or succeeded on a non-empty free list; distinct by abstract state sequence hash. This file reports the release profile; the checked profile (overflow-checks + debug-assertions) is run by the same command and merged"),
        "C05" => base(800_000, 16_000_000, "file-backed histories cut by close+reopen (map_mut / map_copy / map / map_copy_read_only x capacity same/larger/absent); durable model carried across restarts, copy-on-write sessions must not persist. Non-trivial = at least 2 reopen cycles with live data and a non-empty free list; distinct by abstract state sequence hash"),
        "C08" => base(1_500_000, 30_000_000, "histories in which every owner fills its buffer with non-zero bytes before release (incl. rewind, dealloc-on-top, discard_freelist, reopen); all bytes of each alloc_bytes result must be 0 at return. Non-trivial = at least one alloc_bytes served from a recycled segment or from rewound space that held non-zero bytes; distinct by abstract state sequence hash"),
        "C10" => base(1_500_000, 30_000_000, "histories with set_minimum_segment_size / discard_freelist anywhere; after every step snapshot well-formedness (finite, aligned, in area, disjoint, ordered), and the policy oracle on every request that fresh space could not satisfy. Non-trivial = at least 2 slow-path requests with >= 2 segments on the list; distinct by abstract state sequence hash"),
        "C13" => base(600_000, 10_000_000, "histories over clone / alloc* / to-owned / detach / drop in any order incl. dropping the original first, seed-chosen teardown order; release-once accounting from snapshots, refs(), drop counter, teardown callback count, remove_on_drop file existence. Non-trivial = at least one owned handle outlived an arena value and at least 3 non-detached releases; distinct by abstract state sequence hash"),
        "C16" => base(1_200_000, 20_000_000, "configuration sweep (reserved 0..=4096 x unify x backend x flavour x capacities around the prefix) plus histories on the three backends side by side; see coverage.extra for the sweep. Non-trivial histories = at least 4 allocations and one release; distinct by abstract state sequence hash"),
        "C17" => base(1_500_000, 30_000_000, "histories with rewind(pos) at arbitrary points, pos boundary-dense over u32 / i64; cursor vs i128 reference clamp, nothing else changes; clear() checked in place and (differentially) against a fresh arena. Non-trivial = at least one rewind whose raw target fell outside [data_offset, capacity] and one inside; distinct by abstract state sequence hash"),
        "C18" => base(1_200_000, 20_000_000, "unsync::Arena histories (Vec / anon / file, unify on/off, free list and live detached data) with truncate(n), n boundary-dense in 0..=4*capacity, repeated; capacity = max(n, allocated), header / free list / bytes below allocated unchanged, later allocations judged by the per-step oracles against the new capacity; read-only sessions must refuse. Non-trivial = at least one growing and one shrinking truncate with a non-empty free list or live data; distinct by abstract state sequence hash"),
        "C20" => base(1_500_000, 30_000_000, "histories with discard_freelist / increase_discarded / set_minimum_segment_size anywhere; per-step accounting from (discarded, snapshot) before/after, discarded ranges never handed out again. Non-trivial = discard_freelist on a list with >= 2 segments and at least one too-small release; distinct by abstract state sequence hash"),
        "C06" => {
            let mut p = base(12_000, 100_000, "file-backed histories (sync: Optimistic / Pessimistic / None; unsync at operation boundaries); the hook copies memory() at every atomic step; every step of every operation (before the first and after the last access included) is a crash point - all of them within a history in the thorough tier, every third plus all operation boundaries in the quick tier; each image is written to a fresh tmpfs file and opened with the real map_mut; oracle: opens, data_offset <= cursor <= capacity, every range returned and not being released holds its bytes and lies below the cursor, post-crash workload (fill, drain the list, free, discard_freelist) terminates under a 4000-step per-call budget and never hands out a pre-crash live byte. evaluations = histories; coverage.faults_fired.crash_point = crash points. Non-trivial = history with >= 3 in-operation crash points, live ranges and a non-empty free list; distinct by access-trace hash");
            p.level = "fault_enumeration";
            p.exhaustive = false;
            p
        }
        "C09" => {
            let mut p = base(16_000, 200_000, "valid arena file from a short history (live data, free list, non-zero bytes above the cursor); per run one of: one identification byte x all 256 values, every truncation length 0..=prefix+16, 48 garbage files, or a read-only session of 4..40 mutating safe calls; each file x open variants {map_mut, map_copy, map, map_copy_read_only} x capacity {absent, same, larger} x expected freelist / magic right or wrong (all 12 variant x capacity combinations in the thorough tier, a seeded half in the quick tier); expected outcome computed from the statement; refused open => file bytes unchanged (prefix comparison). evaluations = base files; coverage.faults_fired.corrupt_* = fault cases. Non-trivial = at least one fault case executed; distinct by (seed, run, cases) hash");
            p.level = "fault_enumeration";
            p
        }
        "C11" => base(1_200_000, 20_000_000, "one configuration and one seeded operation sequence over the whole single-thread-usable trait surface (all alloc flavours, drop/detach/dealloc, discard_freelist, set_minimum_segment_size, increase_discarded, rewind, clear; Vec / anon / file) executed in lock-step on sync::Arena (with spurious weak-CAS failures injected) and unsync::Arena as the executable reference model; equal observation tuples (result kind, error kind, offset, capacity, buffer extent, allocated, discarded, remaining, free-list snapshot, refs) after every step. Non-trivial = at least 4 operations with a release or a slow-path allocation; distinct by abstract state sequence hash"),
        "C02" => base(800_000, 16_000_000, "seeded schedules (random / sticky / PCT / targeted-preemption / stall-before-CAS strategies, spurious weak-CAS failures) of 2..4 threads x 1..12 operations (alloc_bytes / alloc_aligned_bytes / alloc<T> / owned variants / drop / keep-for-ever) on clones of one sync::Arena after a single-threaded set-up that fills the arena and frees a random subset; oracles inside scheduling steps: new range in data area and disjoint from all live ranges, all live bytes equal their shadow after every value-changing access and before every arena zeroing, every intercepted address inside arena/header. Non-trivial = a list operation (slow-path allocation or release) of one thread overlapped in time with one of another thread, or a CAS failed; distinct = distinct hash of the normalised access trace (thread, location, op, outcome)*"),
        "C07" => base(800_000, 16_000_000, "schedules as C02 (Optimistic / Pessimistic) plus discard_freelist and threads that keep or detach allocations for ever or finish early; busy-wait detector parks a thread after 256 accesses without any value-changing write by anybody; verdicts: all unfinished threads parked and a 4096-step-per-thread round-robin confirmation without change (V1), solo thread > 20000 steps in one call (V2), no call completed in 50000 steps (V3). Non-trivial / distinct as C02"),
        "C12" => base(800_000, 12_000_000, "schedules as C02 plus programs that clone / drop arena values and move owned buffers between threads (mailbox = release/acquire pair), teardown inside the simulation; FastTrack-style vector clocks with C++20 release sequences built from the Ordering arguments actually passed; plain accesses = owner writes/reads through handles, arena zeroing, unmap/free; oracle: no conflicting plain/plain or plain/atomic accesses unordered by happens-before. Non-trivial = more than 4 conflict checks and >= 2 context switches; distinct by access-trace hash"),
        _ => return None,
    })
}

fn probe_name(k: &(u32, u8, u8)) -> String {
    let outcome = ["fail", "ok", "spurious"][k.2 as usize % 3];
    format!("{}:{}@{}:{}", kind_name(k.1), outcome, linemap().func(k.0), k.0)
}

fn summarise_st(prop: &str, spec: &CaseSpec, out: &CaseOut) -> RunSummary {
    let s = &out.stats;
    let nontrivial = match prop {
        "C01" => s.slow_allocs >= 1 && s.max_live >= 3,
        "C03" => s.typed_slow >= 1 || (s.zero_size >= 1 && s.exhaustion >= 1),
        "C04" => s.allocs_err >= 1 && s.allocs_ok >= 1,
        "C05" => s.reopens >= 2 && s.max_nodes >= 1,
        "C08" => s.slow_allocs >= 1 || s.rewinds >= 1,
        "C10" => s.slow_allocs >= 2 && s.max_nodes >= 2,
        "C13" => s.releases >= 3 && s.clones >= 1,
        "C16" => s.allocs_ok >= 4 && s.releases >= 1,
        "C17" => s.rewinds >= 2 || s.clears >= 1,
        "C18" => s.truncates >= 2 && (s.max_nodes >= 1 || s.max_live >= 2),
        "C20" => s.releases_discarded >= 1 && s.max_nodes >= 2,
        _ => s.ops >= 3,
    };
    let mut faults = BTreeMap::new();
    faults.insert("exhaustion".to_string(), s.exhaustion);
    faults.insert("spurious_cas".to_string(), out.spurious_fired);
    faults.insert("reopen".to_string(), s.reopens);
    faults.insert("arena_truncate".to_string(), s.truncates);
    let mut probes = BTreeMap::new();
    for (k, v) in &out.probes {
        probes.insert(probe_name(k), *v);
    }
    probes.insert("st:slow_path_alloc".into(), s.slow_allocs);
    probes.insert("st:split_remainder".into(), s.split_allocs);
    probes.insert("st:typed_slow_path".into(), s.typed_slow);
    probes.insert("st:release_to_list".into(), s.releases_to_list);
    probes.insert("st:release_top".into(), s.releases_top);
    probes.insert("st:release_discarded".into(), s.releases_discarded);
    probes.insert("st:zero_size".into(), s.zero_size);
    RunSummary {
        viols: out.viols.clone(),
        nontrivial,
        hash: s.state_hash ^ out.trace_hash,
        state_hash: s.state_hash,
        steps: out.steps,
        ops: s.ops,
        faults,
        probes,
        sample: Some(json!({"cfg": spec.cfg.to_json(), "ops": ops_to_json(&out.ops[..out.ops.len().min(24)]), "ops_total": out.ops.len()})),
    }
}

pub fn run_one(prop: &str, seed: u64, run: u64, tier: &str) -> RunSummary {
    match std::panic::catch_unwind(|| run_one_inner(prop, seed, run, tier)) {
        Ok(s) => s,
        Err(p) => {
            crate::hook::set_mode(crate::hook::Mode::Off);
            let (class, detail) = crate::exec::panic_message(&p);
            let mut s = RunSummary::default();
            s.viols.push(Violation { prop: "HARNESS", class: "uncaught", detail: format!("{}: {}", class, detail), op: 0 });
            s
        }
    }
}

fn summarise_diff(prop: &str, spec: &crate::diff::DiffSpec, out: &crate::diff::DiffOut, kind: &str) -> RunSummary {
    let s = &out.stats;
    let mut faults = BTreeMap::new();
    faults.insert("exhaustion".to_string(), s.exhaustion);
    faults.insert("spurious_cas".to_string(), out.spurious_fired);
    let mut probes = BTreeMap::new();
    probes.insert(format!("diff:{}", kind), 1);
    probes.insert("st:slow_path_alloc".into(), s.slow_allocs);
    probes.insert("st:split_remainder".into(), s.split_allocs);
    probes.insert("st:release_to_list".into(), s.releases_to_list);
    probes.insert("diff:clear_compared".into(), out.extra);
    RunSummary {
        viols: out.viols.clone(),
        nontrivial: !out.skipped && s.ops >= 4 && (s.slow_allocs >= 1 || s.releases >= 1) && (kind != "clear" || out.extra >= 1),
        hash: s.state_hash ^ out.trace_hash,
        state_hash: s.state_hash,
        steps: out.steps,
        ops: s.ops,
        faults,
        probes,
        sample: Some(json!({"scenario": kind, "cfg": spec.cfg.to_json(), "ops": ops_to_json(&out.ops[..out.ops.len().min(24)]), "ops_total": out.ops.len()})),
    }
}

pub const SWEEP_RUNS: u64 = 4097;

fn run_one_inner(prop: &str, seed: u64, run: u64, tier: &str) -> RunSummary {
    if prop == "C06" && crate::rng::mix(run) % 4 == 0 {
        // threads in flight: a scheduled multi-thread run on a file-backed arena, crash points at atomic steps
        let every = if tier == "thorough" { 1 } else { 3 };
        let mut spec = mtscen::gen_spec(seed, run, MtFlavour::Liveness);
        spec.cfg.backend = crate::arena::Backend::File;
        spec.cfg.unify = true;
        spec.cfg.cap = spec.cfg.cap.min(1024);
        spec.crash_every = Some(every);
        let mut mo = mtscen::run_spec(&spec, false);
        let mut co = crate::crash::CrashOut::default();
        let pts = std::mem::take(&mut mo.crash_points);
        if !mo.setup_failed {
            crate::crash::check_mt_points(&spec.cfg, &pts, run, &mut co);
        }
        let mut s = summarise_mt(prop, &spec, &mo);
        s.viols.extend(co.viols.iter().cloned());
        s.faults.insert("crash_point".to_string(), co.crash_points);
        s.faults.insert("crash_point_inside_operation".to_string(), co.crash_points_in_op);
        s.faults.insert("crash_point_with_live_ranges".to_string(), co.crash_points_with_obligations);
        s.faults.insert("crash_point_threads_in_flight".to_string(), pts.iter().filter(|p| p.in_flight >= 2).count() as u64);
        s.probes.insert("crash:post_crash_operations".to_string(), co.post_ops);
        s.nontrivial = !mo.setup_failed && pts.iter().any(|p| p.in_flight >= 2) && co.crash_points_with_obligations >= 1;
        s.ops = co.crash_points;
        return s;
    }
    if prop == "C06" {
        let every = if tier == "thorough" { 1 } else { 3 };
        let (spec, out) = crate::crash::generate(seed, run, every);
        let mut faults = BTreeMap::new();
        faults.insert("crash_point".to_string(), out.crash_points);
        faults.insert("crash_point_inside_operation".to_string(), out.crash_points_in_op);
        faults.insert("crash_point_with_live_ranges".to_string(), out.crash_points_with_obligations);
        faults.insert("reopen_after_crash".to_string(), out.crash_points);
        let mut probes = BTreeMap::new();
        probes.insert("crash:post_crash_operations".to_string(), out.post_ops);
        probes.insert("crash:max_steps_of_a_post_crash_call".to_string(), out.max_post_call_steps);
        probes.insert("st:slow_path_alloc".into(), out.stats.slow_allocs);
        probes.insert("st:split_remainder".into(), out.stats.split_allocs);
        probes.insert("st:release_to_list".into(), out.stats.releases_to_list);
        return RunSummary { viols: out.viols.clone(), nontrivial: !out.skipped && out.crash_points_in_op >= 3 && out.crash_points_with_obligations >= 1 && out.stats.max_nodes >= 1,
            hash: out.trace_hash ^ out.stats.state_hash, state_hash: out.stats.state_hash, steps: out.steps, ops: out.crash_points, faults, probes,
            sample: Some(json!({"cfg": spec.cfg.to_json(), "ops": ops_to_json(&out.ops[..out.ops.len().min(16)]), "crash_points": out.crash_points, "atomic_steps": out.steps})) };
    }
    if prop == "C09" {
        let out = crate::corrupt::run(seed, run, tier == "thorough");
        let mut faults = BTreeMap::new();
        faults.insert(format!("corrupt_{}", out.kind), out.cases);
        faults.insert("open_refused".to_string(), out.refused);
        faults.insert("open_accepted".to_string(), out.accepted);
        faults.insert("readonly_mutating_call".to_string(), out.ro_calls);
        return RunSummary { viols: out.viols.clone(), nontrivial: !out.skipped && out.cases >= 1, hash: out.hash, state_hash: out.hash, steps: 0, ops: out.cases, faults, probes: BTreeMap::new(), sample: Some(out.sample.clone()) };
    }
    if prop == "C11" {
        let (spec, out) = crate::diff::gen_c11(seed, run);
        return summarise_diff(prop, &spec, &out, "c11");
    }
    if prop == "C17" && crate::rng::mix(run) % 2 == 1 {
        let (spec, _, out) = crate::diff::gen_clear(seed, run);
        return summarise_diff(prop, &spec, &out, "clear");
    }
    if prop == "C16" && run >= SWEEP_RUNS && run < SWEEP_RUNS + crate::diff::SWEEP_BOUNDARY.len() as u64 {
        let (viols, n) = crate::diff::sweep_boundary((run - SWEEP_RUNS) as usize, run);
        let mut probes = BTreeMap::new();
        probes.insert("sweep:boundary_configurations".to_string(), n);
        return RunSummary { viols, nontrivial: true, hash: crate::rng::mix(run ^ 0xC16B), state_hash: run, steps: 0, ops: n, faults: BTreeMap::new(), probes, sample: None };
    }
    if prop == "C16" && run < SWEEP_RUNS {
        let (viols, n) = crate::diff::sweep(run as u32, run);
        let mut probes = BTreeMap::new();
        probes.insert("sweep:configurations".to_string(), n);
        return RunSummary { viols, nontrivial: true, hash: crate::rng::mix(run ^ 0xC16), state_hash: run, steps: 0, ops: n, faults: BTreeMap::new(), probes,
            sample: if run == 9 { Some(json!({"scenario": "sweep", "reserved": run, "configurations": n})) } else { None } };
    }
    if prop == "C16" && crate::rng::mix(run) % 2 == 1 {
        let (spec, out) = crate::diff::gen_backends(seed, run);
        return summarise_diff(prop, &spec, &out, "backends");
    }
    if prop == "C04" && run < HUGE_RUNS {
        let (spec, ops) = huge_case(seed, run);
        let out = st::run_explicit(&spec, &ops, run);
        let mut s = summarise_st(prop, &spec, &out);
        s.faults.insert("arena_of_4gib".to_string(), 1);
        return s;
    }
    if mt_run(prop, run) {
        let spec = mt_spec(prop, seed, run);
        let out = mtscen::run_spec(&spec, false);
        return summarise_mt(prop, &spec, &out);
    }
    if ST_PROPS.contains(&prop) {
        let p = gen::profile(prop);
        let (spec, out) = st::run_generated(&p, seed, run);
        return summarise_st(prop, &spec, &out);
    }
    RunSummary::default()
}

fn diff_replay_json(prop: &str, kind: &str, seed: u64, run: u64, spec: &crate::diff::DiffSpec, ops: &[Op], v: &Violation, clear_at: Option<usize>) -> Value {
    json!({"format": "rsim-replay-1", "scenario": kind, "property": prop, "seed": seed, "run": run, "spec": spec.to_json(), "ops": ops_to_json(ops),
           "clear_at": clear_at, "violation": v.to_json(), "signature": v.signature()})
}

pub fn minimise(prop: &str, seed: u64, run: u64, tier: &str, sig: &str) -> Option<Value> {
    let mut tag = 1u64 << 41;
    if prop == "C06" && crate::rng::mix(run) % 4 == 0 {
        return None; // threads-in-flight crash runs are replayed by (seed, run)
    }
    if prop == "C06" {
        let every = if tier == "thorough" { 1 } else { 3 };
        let (spec, out) = crate::crash::generate(seed, run, every);
        let v = out.viols.iter().find(|v| v.signature() == sig)?.clone();
        // keep the history up to the failing operation, then minimise with all crash points enabled
        let upto = (v.op + 1).min(out.ops.len());
        let ops: Vec<Op> = out.ops[..upto].to_vec();
        let ops = st::minimise_ops(&ops, sig, 60, |o| { tag += 1; crate::crash::replay(&spec, o, tag, 1).viols });
        let fin = crate::crash::replay(&spec, &ops, tag + 1, 1);
        let v2 = fin.viols.iter().find(|x| x.signature() == sig).cloned().unwrap_or(v);
        return Some(json!({"format": "rsim-replay-1", "scenario": "crash", "property": prop, "seed": seed, "run": run, "spec": spec.to_json(), "ops": ops_to_json(&ops),
            "crash_at": fin.first_bad_point.map(|p| json!({"op_index": p.0, "atomic_step": p.1})), "violation": v2.to_json(), "signature": sig}));
    }
    if prop == "C09" {
        let out = crate::corrupt::run(seed, run, tier == "thorough");
        let v = out.viols.iter().find(|v| v.signature() == sig)?.clone();
        return Some(json!({"format": "rsim-replay-1", "scenario": "corrupt", "property": prop, "seed": seed, "run": run, "tier": tier, "case": out.sample, "violation": v.to_json(), "signature": sig}));
    }
    if prop == "C11" {
        let (spec, out) = crate::diff::gen_c11(seed, run);
        let v = out.viols.iter().find(|v| v.signature() == sig)?.clone();
        let ops = st::minimise_ops(&out.ops, sig, 300, |o| { tag += 1; crate::diff::replay_c11(&spec, o, tag).viols });
        let fin = crate::diff::replay_c11(&spec, &ops, tag + 1);
        let v2 = fin.viols.iter().find(|x| x.signature() == sig).cloned().unwrap_or(v);
        return Some(diff_replay_json(prop, "c11", seed, run, &spec, &ops, &v2, None));
    }
    if prop == "C17" && crate::rng::mix(run) % 2 == 1 {
        let (spec, clear_at, out) = crate::diff::gen_clear(seed, run);
        let v = out.viols.iter().find(|v| v.signature() == sig)?.clone();
        // only the history after the clear is minimised (indices before it must stay put)
        let head: Vec<Op> = out.ops[..clear_at.min(out.ops.len())].to_vec();
        let tail: Vec<Op> = out.ops[clear_at.min(out.ops.len())..].to_vec();
        let tail = st::minimise_ops(&tail, sig, 200, |o| { tag += 1; let mut all = head.clone(); all.extend_from_slice(o); crate::diff::replay_clear(&spec, clear_at, &all, tag).viols });
        let mut all = head.clone();
        all.extend_from_slice(&tail);
        return Some(diff_replay_json(prop, "clear", seed, run, &spec, &all, &v, Some(clear_at)));
    }
    if prop == "C16" && run >= SWEEP_RUNS && run < SWEEP_RUNS + crate::diff::SWEEP_BOUNDARY.len() as u64 {
        // one construction per case: nothing to minimise, the seed-addressed replay file re-runs it
        return None;
    }
    if prop == "C16" && run < SWEEP_RUNS {
        let (viols, _) = crate::diff::sweep(run as u32, run);
        let v = viols.iter().find(|v| v.signature() == sig)?.clone();
        return Some(json!({"format": "rsim-replay-1", "scenario": "sweep", "property": prop, "seed": seed, "run": run, "reserved": run, "violation": v.to_json(), "signature": sig}));
    }
    if prop == "C16" && crate::rng::mix(run) % 2 == 1 {
        let (spec, out) = crate::diff::gen_backends(seed, run);
        let v = out.viols.iter().find(|v| v.signature() == sig)?.clone();
        let ops = st::minimise_ops(&out.ops, sig, 200, |o| { tag += 1; crate::diff::replay_backends(&spec, o, tag).viols });
        return Some(diff_replay_json(prop, "backends", seed, run, &spec, &ops, &v, None));
    }
    if mt_run(prop, run) {
        let spec = mt_spec(prop, seed, run);
        let out = mtscen::run_spec(&spec, false);
        let v = out.viols.iter().find(|v| mtscen::mt_signature(v) == sig)?.clone();
        let frozen = mtscen::freeze(&spec, &out);
        let min = mtscen::minimise(&frozen, sig, 250);
        let fin = mtscen::run_spec(&min, true);
        let v2 = fin.viols.iter().find(|x| mtscen::mt_signature(x) == sig).cloned().unwrap_or(v);
        return Some(json!({
            "format": "rsim-replay-1", "scenario": "mt", "property": prop, "seed": seed, "run": run,
            "spec": min.to_json(), "violation": v2.to_json(), "signature": sig,
            "trace_tail": fin.events.iter().rev().take(60).rev().cloned().collect::<Vec<_>>(),
            "original": {"ops": spec.programs.iter().map(|p| p.len()).sum::<usize>(), "setup": spec.setup.len(), "steps": out.steps},
        }));
    }
    if ST_PROPS.contains(&prop) {
        let p = gen::profile(prop);
        let (spec, out) = if prop == "C04" && run < HUGE_RUNS {
            let (spec, ops) = huge_case(seed, run);
            let out = st::run_explicit(&spec, &ops, run);
            (spec, out)
        } else {
            st::run_generated(&p, seed, run)
        };
        let v = out.viols.iter().find(|v| v.signature() == sig)?.clone();
        let mut tag = 1u64 << 40;
        let ops = st::minimise(&spec, &out.ops, sig, 300, |s, o| {
            tag += 1;
            st::run_explicit(s, o, tag).viols
        });
        let fin = st::run_explicit(&spec, &ops, tag + 1);
        let v2 = fin.viols.iter().find(|x| x.signature() == sig).cloned().unwrap_or(v);
        return Some(st::replay_json(prop, "st", seed, run, &spec, &ops, &v2, json!({"original_ops": out.ops.len()})));
    }
    None
}

pub fn replay(j: &Value) -> Vec<Violation> {
    match j["scenario"].as_str().unwrap_or("") {
        "mt" => {
            let Some(spec) = MtSpec::from_json(&j["spec"]) else { return vec![] };
            let out = mtscen::run_spec(&spec, std::env::var("RSIM_TRACE").is_ok());
            if std::env::var("RSIM_TRACE").is_ok() {
                for e in &out.events {
                    eprintln!("{}", e);
                }
            }
            out.viols.clone()
        }
        "c11" | "clear" | "backends" => {
            let Some(spec) = crate::diff::DiffSpec::from_json(&j["spec"]) else { return vec![] };
            let Some(ops) = ops_from_json(&j["ops"]) else { return vec![] };
            match j["scenario"].as_str().unwrap_or("") {
                "c11" => crate::diff::replay_c11(&spec, &ops, 7).viols,
                "clear" => crate::diff::replay_clear(&spec, j["clear_at"].as_u64().unwrap_or(0) as usize, &ops, 7).viols,
                _ => crate::diff::replay_backends(&spec, &ops, 7).viols,
            }
        }
        "crash" => {
            let Some(spec) = CaseSpec::from_json(&j["spec"]) else { return vec![] };
            let Some(ops) = ops_from_json(&j["ops"]) else { return vec![] };
            crate::crash::replay(&spec, &ops, 7, 1).viols
        }
        "corrupt" => crate::corrupt::run(j["seed"].as_u64().unwrap_or(1), j["run"].as_u64().unwrap_or(0), j["tier"].as_str() == Some("thorough")).viols,
        "sweep" => crate::diff::sweep(j["reserved"].as_u64().unwrap_or(0) as u32, 7).0,
        "st" => {
            let Some(spec) = CaseSpec::from_json(&j["spec"]) else { return vec![] };
            let Some(ops) = ops_from_json(&j["ops"]) else { return vec![] };
            st::run_explicit(&spec, &ops, 7).viols
        }
        "seed" => {
            let prop = j["property"].as_str().unwrap_or("").to_string();
            let tier = j["tier"].as_str().unwrap_or("quick").to_string();
            run_one(&prop, j["seed"].as_u64().unwrap_or(1), j["run"].as_u64().unwrap_or(0), &tier).viols
        }
        _ => vec![],
    }
}

pub fn selftest(_args: &[String]) -> i32 {
    0
}
