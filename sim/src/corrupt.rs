//! CORRUPT scenario (C09): stored-byte faults on a valid arena file, and read-only sessions.
//!
//! A valid file is produced by a short history (live data, a free list, non-zero bytes above the
//! cursor). Fault space per run: one identification byte x all 256 values, or every truncation
//! length, or garbage files; each x the four open variants x capacity {absent, same, larger} x
//! expected {freelist, magic version} right/wrong. The expected outcome is computed from the
//! statement of the property; on a refused open the bytes that were in the file must be unchanged.

use crate::arena::*;
use crate::exec::*;
use crate::gen;
use crate::hook::{self, Mode, ST};
use crate::ops::*;
use crate::rng::Rng;
use rarena_allocator::{sync, unsync, Allocator, Error, Options};
use serde_json::{json, Value};
use std::path::PathBuf;

#[derive(Default, Clone, Debug)]
pub struct CorruptOut {
    pub viols: Vec<Violation>,
    pub cases: u64,
    pub refused: u64,
    pub accepted: u64,
    pub ro_calls: u64,
    pub kind: &'static str,
    pub skipped: bool,
    pub hash: u64,
    pub sample: Value,
}

#[derive(Clone, Debug)]
pub struct Base {
    pub cfg: Cfg,
    pub bytes: Vec<u8>,
    pub allocated: u32,
    pub kept: Vec<Range>,
}

/// Builds a valid arena file image with live data, a free list and dirt above the cursor.
fn make_base<A: Ar>(cfg: Cfg, seed: u64, run: u64, path: &PathBuf) -> Option<Base> {
    ST.with(|st| st.borrow_mut().reset());
    let mut e = Exec::<A>::new(cfg, Some(path.clone()), ExecOpts { check_reserved: true, spurious: None, crash_snaps: None }).ok()?;
    let mut p = gen::profile("C05");
    p.w[gen::W_REOPEN] = 0;
    p.w[gen::W_REWIND] = 3;
    let mut rng = Rng::derive(seed, run, 21);
    let n = rng.range(3, 18);
    for _ in 0..n {
        if e.dead {
            break;
        }
        let a = e.a();
        let s = a.snap();
        let v = gen::View::from_snap(&s, a.capacity(), a.data_offset(), e.live.len(), e.kept.len(), 1, false, None);
        let op = gen::next_op(&mut rng, &p, &cfg, &v);
        e.step(&op);
    }
    if e.dead {
        e.finish(1);
        return None;
    }
    // dirt above the cursor: allocate, fill, rewind over it
    e.step(&Op::Alloc { kind: AllocKind::Bytes, ty: 0, size: rng.range(8, 40) as u32, owned: false, arena: 0 });
    let cur = e.a().allocated() as u32;
    if e.live.last().map(|l| l.r.boff + l.r.bcap == cur as usize && l.r.bcap > 0).unwrap_or(false) {
        e.step(&Op::Drop { h: e.live.len() - 1 });
    }
    if e.dead {
        e.finish(1);
        return None;
    }
    let allocated = e.a().allocated() as u32;
    let _ = e.close_all();
    let kept = e.kept.clone();
    hook::set_mode(Mode::Off);
    drop(e);
    let bytes = std::fs::read(path).ok()?;
    Some(Base { cfg, bytes, allocated, kept })
}

#[derive(Clone, Copy, Debug)]
pub struct OpenCase {
    pub mode: u8,       // 0 map_mut 1 map_copy 2 map 3 map_copy_read_only
    pub capk: u8,       // 0 absent 1 same 2 larger
    pub wrong_fl: bool, // expect another freelist kind
    pub wrong_magic: bool,
    pub create: bool,
    /// read-only opens only: leftover flags of a "writable" Options value (bit 0 write, 1 truncate, 2 append, 3 create_new);
    /// map / map_copy_read_only are documented to clear them; bit 4: use the `*_with_path_builder` entry point
    pub leftover: u8,
}

fn open_case<A: Ar>(base: &Base, oc: &OpenCase, path: &PathBuf) -> std::io::Result<A> {
    let mut cfg = base.cfg;
    if oc.wrong_fl {
        cfg.freelist = (cfg.freelist + 1) % 3;
    }
    if oc.wrong_magic {
        cfg.magic = cfg.magic.wrapping_add(1);
    }
    let mut opts: Options = cfg.options().with_read(true);
    opts = match oc.capk {
        0 => opts.maybe_capacity(None),
        1 => opts.with_capacity(base.cfg.cap),
        _ => opts.with_capacity(base.cfg.cap + 4096),
    };
    if oc.create {
        opts = opts.with_create(true);
    }
    if oc.mode >= 2 {
        if oc.leftover & 1 != 0 {
            opts = opts.with_write(true);
        }
        if oc.leftover & 2 != 0 {
            opts = opts.with_write(true).with_truncate(true);
        }
        if oc.leftover & 4 != 0 {
            opts = opts.with_append(true);
        }
        if oc.leftover & 8 != 0 {
            opts = opts.with_create_new(true);
        }
    }
    let opts = if oc.mode < 2 { opts.with_write(true) } else { opts };
    open_file::<A>(opts, oc.mode, path, oc.leftover & 16 != 0)
}

/// Expected outcome per the statement: error iff an identification field is invalid or differs from
/// what the caller expects, or the file cannot hold the prefix.
fn expect_ok<A: Ar>(base: &Base, file: &[u8], oc: &OpenCase) -> bool {
    expect_ok_in::<A>(base, file, oc, true)
}

fn expect_ok_in<A: Ar>(base: &Base, file: &[u8], oc: &OpenCase, compare_freelist: bool) -> bool {
    let off = base.cfg.offset as usize;
    let reserved = off + base.cfg.reserved as usize;
    let prefix = off + base.cfg.options().data_offset_unify::<A>();
    if file.len() < prefix {
        return false;
    }
    let id = &file[reserved..reserved + 8];
    let fl = id[1];
    if fl > 2 {
        return false;
    }
    let expected_fl = if oc.wrong_fl { (base.cfg.freelist + 1) % 3 } else { base.cfg.freelist };
    // the statement makes no exception for read-only opens
    if compare_freelist && fl != expected_fl {
        return false;
    }
    if &id[2..4] != b"al" {
        return false;
    }
    let expected_magic = if oc.wrong_magic { base.cfg.magic.wrapping_add(1) } else { base.cfg.magic };
    if u16::from_le_bytes([id[4], id[5]]) != expected_magic {
        return false;
    }
    if u16::from_le_bytes([id[6], id[7]]) != 0 {
        return false;
    }
    true
}

fn one_case<A: Ar>(base: &Base, file: &[u8], oc: &OpenCase, path: &PathBuf, what: &str, out: &mut CorruptOut) {
    hook::set_mode(Mode::Off);
    if std::fs::write(path, file).is_err() {
        return;
    }
    out.cases += 1;
    let want_ok = expect_ok::<A>(base, file, oc);
    let r = match std::panic::catch_unwind(std::panic::AssertUnwindSafe(|| open_case::<A>(base, oc, path))) {
        Ok(r) => r,
        Err(p) => {
            let (_, d) = crate::exec::panic_message(&p);
            if out.viols.iter().all(|v| v.class != "open_panicked") {
                out.viols.push(Violation { prop: "C09", class: "open_panicked", detail: format!("opening panicked instead of returning an error or an arena ({}): {}", d, what), op: 0 });
            }
            return;
        }
    };
    let got_ok = r.is_ok();
    let mode_name = ["map_mut", "map_copy", "map", "map_copy_read_only"][oc.mode as usize % 4];
    let desc = format!("{} -> {}(capacity {}, expected freelist {}, expected magic {}, leftover open flags {:#06b})", what, mode_name, ["absent", "same", "larger"][oc.capk as usize % 3], if oc.wrong_fl { "wrong" } else { "right" }, if oc.wrong_magic { "wrong" } else { "right" }, oc.leftover);
    match r {
        Ok(a) => {
            out.accepted += 1;
            // a successful read-only / copy-on-write open must not alter the file either
            let ro = a.read_only();
            drop(a);
            if !want_ok {
                // call site of the known finding: a read-only open takes the freelist kind from the file instead of
                // comparing it with what the caller expects; everything else about the file is valid
                let only_ro_freelist = oc.mode >= 2 && expect_ok_in::<A>(base, file, oc, false);
                let tag = if only_ro_freelist { "[readonly-freelist] " } else { "" };
                push(out, "accepted_invalid", format!("{}{}: open succeeded but the statement requires an error", tag, desc));
            }
            if ro || oc.mode == 1 {
                let after = std::fs::read(path).unwrap_or_default();
                if after.len() < file.len() || after[..file.len()] != file[..] {
                    push(out, "readonly_open_altered_file", format!("{}: file bytes changed by a read-only / copy-on-write open", desc));
                }
            }
        }
        Err(e) => {
            out.refused += 1;
            if want_ok {
                push(out, "refused_valid", format!("{}: open failed ({}) but every identification field is valid and as expected", desc, e));
            }
            let after = std::fs::read(path).unwrap_or_default();
            if after.len() < file.len() || after[..file.len()] != file[..] {
                let i = (0..file.len().min(after.len())).find(|i| after[*i] != file[*i]);
                push(out, "refused_open_altered_file", format!("{}: the refused open changed the file (first differing byte {:?}, length {} -> {})", desc, i, file.len(), after.len()));
            }
        }
    }
    let _ = got_ok;
}

fn push(out: &mut CorruptOut, class: &'static str, detail: String) {
    let v = Violation { prop: "C09", class, detail, op: 0 };
    let sig = v.signature();
    if out.viols.iter().all(|x| x.signature() != sig) {
        out.viols.push(v);
    }
}

fn all_cases(rng: &mut Rng, full: bool) -> Vec<OpenCase> {
    let mut v = Vec::new();
    for mode in 0..4u8 {
        for capk in 0..3u8 {
            if !full && rng.chance(1, 2) {
                continue;
            }
            v.push(OpenCase { mode, capk, wrong_fl: rng.chance(1, 5), wrong_magic: rng.chance(1, 6), create: rng.chance(1, 4), leftover: (if rng.chance(1, 3) { rng.below(16) as u8 } else { 0 }) | (if rng.chance(1, 3) { 16 } else { 0 }) });
        }
    }
    v
}

fn run_generic<A: Ar>(seed: u64, run: u64, thorough: bool) -> CorruptOut {
    let mut out = CorruptOut::default();
    let dir = crate::st::scratch_dir();
    let path = dir.join(format!("k{}.arena", run));
    let mut rng = Rng::derive(seed, run, 20);
    let p = gen::profile("C05");
    let mut cfg = gen::gen_cfg(&mut rng, &p);
    cfg.sync = A::SYNC;
    cfg.cap = cfg.cap.min(1024);
    // a quarter of the base files are mapped at a page offset inside the file (the fault cases edit the file at
    // absolute positions: everything below is shifted by it)
    cfg.offset = if crate::rng::mix(run ^ 0x0ff5e7) % 4 == 0 { 4096 } else { 0 };
    let off = cfg.offset as usize;
    let Some(base) = make_base::<A>(cfg, seed, run, &path) else {
        out.skipped = true;
        let _ = std::fs::remove_file(&path);
        return out;
    };
    let reserved = off + cfg.reserved as usize;
    let prefix = off + cfg.options().data_offset_unify::<A>();
    let kind = (run / 2) % 4;
    match kind {
        0 => {
            out.kind = "id_byte";
            let byte = ((run / 8) % 8) as usize;
            for val in 0..=255u8 {
                let mut f = base.bytes.clone();
                f[reserved + byte] = val;
                for oc in all_cases(&mut rng, thorough) {
                    one_case::<A>(&base, &f, &oc, &path, &format!("identification byte {} := {:#04x}", byte, val), &mut out);
                }
            }
            out.sample = json!({"kind": "id_byte", "byte": byte, "values": "0..=255", "cfg": cfg.to_json()});
        }
        1 => {
            out.kind = "truncate";
            // every length up to the prefix; with a mapping offset: the lengths around 0, around the offset and around
            // offset + prefix
            let lens: Vec<usize> = if off == 0 {
                (0..=(prefix + 16).min(base.bytes.len())).collect()
            } else {
                (0..=16).chain(off.saturating_sub(16)..=(prefix + 16).min(base.bytes.len())).collect()
            };
            for len in lens {
                let f = base.bytes[..len].to_vec();
                for oc in all_cases(&mut rng, thorough) {
                    one_case::<A>(&base, &f, &oc, &path, &format!("file truncated to {} bytes (prefix {})", len, prefix), &mut out);
                }
            }
            out.sample = json!({"kind": "truncate", "lengths": format!("0..={}", prefix + 16), "cfg": cfg.to_json()});
        }
        2 => {
            out.kind = "garbage";
            for _ in 0..48 {
                let len = match rng.below(4) {
                    0 => rng.range(0, prefix as u64 + 2) as usize,
                    1 => prefix,
                    2 => prefix + rng.range(0, 64) as usize,
                    _ => base.bytes.len(),
                };
                let mut f: Vec<u8> = (0..len).map(|_| rng.next_u64() as u8).collect();
                // half of the garbage files carry a valid identification block so that the header is what is garbage
                if rng.chance(1, 2) && len >= reserved + 8 {
                    f[reserved..reserved + 8].copy_from_slice(&base.bytes[reserved..reserved + 8]);
                    // keep the stored cursor sane: C09 is about identification, not about header contents
                    if len >= prefix {
                        f[reserved + 8..prefix.min(len)].copy_from_slice(&base.bytes[reserved + 8..prefix.min(len)]);
                    }
                }
                for oc in all_cases(&mut rng, false) {
                    one_case::<A>(&base, &f, &oc, &path, &format!("garbage file of {} bytes", len), &mut out);
                }
            }
            out.sample = json!({"kind": "garbage", "files": 48, "cfg": cfg.to_json()});
        }
        _ => {
            out.kind = "readonly_session";
            readonly_session::<A>(&base, &path, &mut rng, &mut out);
            out.sample = json!({"kind": "readonly_session", "calls": out.ro_calls, "cfg": cfg.to_json()});
        }
    }
    out.hash = crate::rng::mix(seed ^ run.wrapping_mul(31)) ^ out.cases;
    let _ = std::fs::remove_file(&path);
    out
}

/// Arbitrary sequences of every mutating safe call on a read-only arena.
fn readonly_session<A: Ar>(base: &Base, path: &PathBuf, rng: &mut Rng, out: &mut CorruptOut) {
    hook::set_mode(Mode::Off);
    if std::fs::write(path, &base.bytes).is_err() {
        return;
    }
    let mode = 2 + rng.below(2) as u8;
    let oc = OpenCase { mode, capk: rng.below(3) as u8, wrong_fl: false, wrong_magic: false, create: false, leftover: (if rng.chance(1, 3) { rng.below(16) as u8 } else { 0 }) | (if rng.chance(1, 3) { 16 } else { 0 }) };
    let mut a: A = match open_case::<A>(base, &oc, path) {
        Ok(a) => a,
        Err(e) => {
            push(out, "refused_valid", format!("read-only open of a valid file failed: {}", e));
            return;
        }
    };
    out.cases += 1;
    let before = a.snap();
    let n = rng.range(4, 40);
    for _ in 0..n {
        out.ro_calls += 1;
        let size = match rng.below(5) {
            0 => 0,
            1 => rng.range(1, 64) as u32,
            2 => u32::MAX - rng.range(0, 40) as u32,
            3 => a.remaining() as u32,
            _ => rng.range(1, 2000) as u32,
        };
        let call = rng.below(13);
        let r = std::panic::catch_unwind(std::panic::AssertUnwindSafe(|| -> Result<(), String> {
            match call {
                0 => match a.alloc_bytes(size) {
                    Ok(h) => {
                        use rarena_allocator::Buffer;
                        if h.capacity() > 0 { Err(format!("alloc_bytes({}) succeeded", size)) } else { Err(format!("alloc_bytes({}) returned Ok on a read-only arena", size)) }
                    }
                    Err(Error::ReadOnly) => Ok(()),
                    Err(e) => Err(format!("alloc_bytes({}) failed with {:?} instead of ReadOnly", size, e)),
                },
                1 => match a.alloc_bytes_owned(size) {
                    Ok(_) => Err(format!("alloc_bytes_owned({}) returned Ok on a read-only arena", size)),
                    Err(Error::ReadOnly) => Ok(()),
                    Err(e) => Err(format!("alloc_bytes_owned({}) failed with {:?} instead of ReadOnly", size, e)),
                },
                2 => match a.alloc_aligned_bytes::<u64>(size) {
                    Ok(_) => Err(format!("alloc_aligned_bytes::<u64>({}) returned Ok on a read-only arena", size)),
                    Err(Error::ReadOnly) => Ok(()),
                    Err(e) => Err(format!("alloc_aligned_bytes({}) failed with {:?} instead of ReadOnly", size, e)),
                },
                3 => match a.alloc_aligned_bytes_owned::<[u16; 5]>(size) {
                    Ok(_) => Err(format!("alloc_aligned_bytes_owned({}) returned Ok on a read-only arena", size)),
                    Err(Error::ReadOnly) => Ok(()),
                    Err(e) => Err(format!("alloc_aligned_bytes_owned({}) failed with {:?} instead of ReadOnly", size, e)),
                },
                4 => match a.discard_freelist() {
                    Err(Error::ReadOnly) => Ok(()),
                    other => Err(format!("discard_freelist returned {:?} on a read-only arena", other)),
                },
                5 => {
                    a.increase_discarded(size % 100);
                    Ok(())
                }
                6 => {
                    a.set_minimum_segment_size(size % 100);
                    Ok(())
                }
                7 => a.flush().map_err(|e| format!("flush failed: {}", e)),
                8 => a.flush_async().map_err(|e| format!("flush_async failed: {}", e)),
                9 => a.flush_range(0, a.allocated()).map_err(|e| format!("flush_range failed: {}", e)),
                10 => a.flush_header().map_err(|e| format!("flush_header failed: {}", e)),
                11 => a.flush_header_and_range(0, a.allocated()).map_err(|e| format!("flush_header_and_range failed: {}", e)),
                _ => {
                    let n = (size % 4096) as usize;
                    match a.truncate_(n) {
                        None => Ok(()),
                        Some(Err(_)) => Ok(()),
                        Some(Ok(())) => {
                            if a.capacity() != base.cfg.cap as usize && oc.capk == 1 { Err(format!("truncate({}) succeeded on a read-only arena", n)) } else { Ok(()) }
                        }
                    }
                }
            }
        }));
        match r {
            Ok(Ok(())) => {}
            Ok(Err(d)) => push(out, "readonly_call_not_rejected", d),
            Err(_) => {
                // a documented panic is acceptable; nothing here documents one, so it is reported
                push(out, "readonly_call_panicked", format!("mutating call #{} panicked on a read-only arena", call));
            }
        }
    }
    let after = a.snap();
    if before.allocated != after.allocated || before.nodes != after.nodes {
        push(out, "readonly_state_changed", format!("read-only arena state changed: {} -> {}", before.to_json(), after.to_json()));
    }
    drop(a);
    let bytes = std::fs::read(path).unwrap_or_default();
    if bytes.len() < base.bytes.len() || bytes[..base.bytes.len()] != base.bytes[..] {
        push(out, "readonly_session_altered_file", "file bytes changed during a read-only session".into());
    }
}

pub fn run(seed: u64, run: u64, thorough: bool) -> CorruptOut {
    if run % 2 == 0 {
        run_generic::<sync::Arena>(seed, run, thorough)
    } else {
        run_generic::<unsync::Arena>(seed, run, thorough)
    }
}
