//! Arena abstraction over `sync::Arena` / `unsync::Arena`, configurations, snapshots.

use crate::rng::Rng;
use crate::types::{AnyHandle, DropCounter};
use crate::with_ty;
use rarena_allocator::{sync, unsync, Allocator, Error, Freelist, Options};
use serde_json::{json, Value};
use std::path::Path;

#[derive(Clone, Copy, Debug, PartialEq, Eq)]
pub enum Backend {
    Vec,
    Anon,
    File,
}

#[derive(Clone, Copy, Debug, PartialEq, Eq)]
pub struct Cfg {
    pub sync: bool,
    pub backend: Backend,
    pub unify: bool,
    pub freelist: u8, // 0 none, 1 optimistic, 2 pessimistic
    pub cap: u32,
    pub reserved: u32,
    pub min_seg: u32,
    pub max_align: usize,
    pub retries: u8,
    pub magic: u16,
    /// file backend only: offset of the mapping inside the file (a multiple of the page size)
    pub offset: u64,
}

pub fn freelist_of(k: u8) -> Freelist {
    match k {
        0 => Freelist::None,
        1 => Freelist::Optimistic,
        _ => Freelist::Pessimistic,
    }
}

pub fn freelist_id(f: Freelist) -> u8 {
    match f {
        Freelist::None => 0,
        Freelist::Optimistic => 1,
        _ => 2,
    }
}

impl Cfg {
    pub fn to_json(&self) -> Value {
        json!({
            "sync": self.sync,
            "backend": match self.backend { Backend::Vec => "vec", Backend::Anon => "anon", Backend::File => "file" },
            "unify": self.unify, "freelist": self.freelist, "cap": self.cap, "reserved": self.reserved,
            "min_seg": self.min_seg, "max_align": self.max_align, "retries": self.retries, "magic": self.magic, "offset": self.offset,
        })
    }

    pub fn from_json(v: &Value) -> Option<Cfg> {
        Some(Cfg {
            sync: v.get("sync")?.as_bool()?,
            backend: match v.get("backend")?.as_str()? {
                "vec" => Backend::Vec,
                "anon" => Backend::Anon,
                _ => Backend::File,
            },
            unify: v.get("unify")?.as_bool()?,
            freelist: v.get("freelist")?.as_u64()? as u8,
            cap: v.get("cap")?.as_u64()? as u32,
            reserved: v.get("reserved")?.as_u64()? as u32,
            min_seg: v.get("min_seg")?.as_u64()? as u32,
            max_align: v.get("max_align")?.as_u64()? as usize,
            retries: v.get("retries")?.as_u64()? as u8,
            magic: v.get("magic")?.as_u64()? as u16,
            offset: v.get("offset").and_then(|x| x.as_u64()).unwrap_or(0),
        })
    }

    pub fn options(&self) -> Options {
        let o = self.options_no_offset();
        if self.backend == Backend::File && self.offset > 0 {
            o.with_offset(self.offset)
        } else {
            o
        }
    }

    fn options_no_offset(&self) -> Options {
        Options::new()
            .with_capacity(self.cap)
            .with_reserved(self.reserved)
            .with_minimum_segment_size(self.min_seg)
            .with_maximum_alignment(self.max_align)
            .with_maximum_retries(self.retries)
            .with_unify(self.unify)
            .with_magic_version(self.magic)
            .with_freelist(freelist_of(self.freelist))
    }

    /// The effective layout: file-backed arenas are always unified.
    pub fn effective_unify(&self) -> bool {
        self.unify || self.backend == Backend::File
    }

    /// Swarm-style random configuration.
    pub fn random(rng: &mut Rng, sync: Option<bool>, backends: &[Backend], freelists: &[u8]) -> Cfg {
        let cap = match rng.below(40) {
            // a few arenas of several pages
            39 => rng.range(4096, 20000),
            x => match x % 10 {
            0 => rng.range(64, 128),
            1..=3 => rng.range(128, 320),
            4..=6 => rng.range(256, 768),
            7..=8 => rng.range(512, 2048),
            _ => rng.range(1024, 4096),
            },
        } as u32;
        Cfg {
            sync: sync.unwrap_or_else(|| rng.chance(1, 2)),
            backend: *rng.pick(backends),
            unify: rng.chance(1, 2),
            freelist: *rng.pick(freelists),
            cap,
            reserved: *rng.pick(&[0, 0, 0, 1, 5, 7, 8, 9, 16, 33]),
            min_seg: *rng.pick(&[0, 1, 8, 8, 20, 20, 48]),
            max_align: *rng.pick(&[1usize, 8, 8, 16, 64]),
            retries: *rng.pick(&[0u8, 1, 1, 2, 3, 4, 5, 5]),
            magic: *rng.pick(&[0u16, 0, 1, 0xBEEF]),
            offset: 0,
        }
    }
}

/// Decoded free-list / header snapshot (taken without firing hooks).
#[derive(Clone, Debug, PartialEq, Eq, Default)]
pub struct Snap {
    pub sentinel: u64,
    pub allocated: u32,
    pub min_seg: u32,
    pub discarded: u32,
    /// (node offset, data size, next offset)
    pub nodes: Vec<(u32, u32, u32)>,
    /// walk ended at the tail marker within the bound and without a bad offset
    pub complete: bool,
}

impl Snap {
    pub fn to_json(&self) -> Value {
        json!({"allocated": self.allocated, "min_seg": self.min_seg, "discarded": self.discarded,
               "sentinel": format!("{:#x}", self.sentinel),
               "nodes": self.nodes.iter().map(|n| json!([n.0, n.1, n.2])).collect::<Vec<_>>(), "complete": self.complete})
    }
    pub fn total_size(&self) -> u64 {
        self.nodes.iter().map(|n| n.1 as u64).sum()
    }
}

pub const MAX_NODES: usize = 1024;

pub trait Ar: Allocator + Clone + 'static {
    const SYNC: bool;
    fn vheader(&self) -> (u64, u32, u32, u32);
    fn vfreelist(&self, max: usize) -> Vec<(u32, u64)>;
    fn vrefs(&self) -> usize;
    fn truncate_(&mut self, n: usize) -> Option<std::io::Result<()>>;
    /// (word addresses [sentinel, allocated, min_seg, discarded, refs], memory box (addr, size))
    fn vwords(&self) -> Option<([usize; 5], (usize, usize))>;

    fn snap(&self) -> Snap {
        let (sentinel, allocated, min_seg, discarded) = self.vheader();
        let raw = self.vfreelist(MAX_NODES);
        let mut nodes = Vec::with_capacity(raw.len());
        let mut complete = (sentinel >> 32) as u32 == u32::MAX;
        let cap = self.capacity() as u64;
        for (i, (off, word)) in raw.iter().enumerate() {
            if off % 8 != 0 || *off as u64 + 8 > cap {
                complete = false;
                nodes.push((*off, 0, u32::MAX));
                break;
            }
            nodes.push((*off, (*word >> 32) as u32, *word as u32));
            if i + 1 == raw.len() && (*word as u32) != u32::MAX {
                complete = false;
            }
        }
        Snap { sentinel, allocated, min_seg, discarded, nodes, complete }
    }
}

impl Ar for sync::Arena {
    const SYNC: bool = true;
    fn vheader(&self) -> (u64, u32, u32, u32) {
        self.verif_header()
    }
    fn vfreelist(&self, max: usize) -> Vec<(u32, u64)> {
        self.verif_freelist(max)
    }
    fn vrefs(&self) -> usize {
        self.verif_refs()
    }
    fn truncate_(&mut self, _n: usize) -> Option<std::io::Result<()>> {
        None
    }
    fn vwords(&self) -> Option<([usize; 5], (usize, usize))> {
        Some(self.verif_words())
    }
}

impl Ar for unsync::Arena {
    const SYNC: bool = false;
    fn vheader(&self) -> (u64, u32, u32, u32) {
        self.verif_header()
    }
    fn vfreelist(&self, max: usize) -> Vec<(u32, u64)> {
        self.verif_freelist(max)
    }
    fn vrefs(&self) -> usize {
        self.verif_refs()
    }
    fn truncate_(&mut self, n: usize) -> Option<std::io::Result<()>> {
        Some(self.truncate(n))
    }
    fn vwords(&self) -> Option<([usize; 5], (usize, usize))> {
        None
    }
}

#[derive(Debug)]
pub enum BuildErr {
    Arena(Error),
    Io(std::io::Error),
}

/// Builds a fresh arena for `cfg` (file arenas are created at `path` with create_new).
pub fn build<A: Ar>(cfg: &Cfg, path: Option<&Path>) -> Result<A, BuildErr> {
    let opts = cfg.options();
    match cfg.backend {
        Backend::Vec => opts.alloc::<A>().map_err(BuildErr::Arena),
        Backend::Anon => opts.map_anon::<A>().map_err(BuildErr::Io),
        Backend::File => {
            let p = path.expect("file backend needs a path");
            let _ = std::fs::remove_file(p);
            // both entry points are used (chosen by the configuration, so that replays agree)
            let via_builder = (cfg.cap ^ cfg.reserved) % 3 == 0;
            open_file::<A>(opts.with_create_new(true).with_read(true).with_write(true), 0, p, via_builder).map_err(BuildErr::Io)
        }
    }
}

/// Opens a file-backed arena through one of the eight public entry points:
/// mode 0 map_mut, 1 map_copy, 2 map, 3 map_copy_read_only; `via_builder` selects the `*_with_path_builder` variant.
pub fn open_file<A: Ar>(opts: Options, mode: u8, path: &Path, via_builder: bool) -> std::io::Result<A> {
    use rarena_allocator::either::Either;
    let flat = |e: Either<std::io::Error, std::io::Error>| match e {
        Either::Left(e) | Either::Right(e) => e,
    };
    let pb = || Ok::<std::path::PathBuf, std::io::Error>(path.to_path_buf());
    unsafe {
        match (mode % 4, via_builder) {
            (0, false) => opts.map_mut::<A, _>(path),
            (1, false) => opts.map_copy::<A, _>(path),
            (2, false) => opts.map::<A, _>(path),
            (3, false) => opts.map_copy_read_only::<A, _>(path),
            (0, true) => opts.map_mut_with_path_builder::<A, _, std::io::Error>(pb).map_err(flat),
            (1, true) => opts.map_copy_with_path_builder::<A, _, std::io::Error>(pb).map_err(flat),
            (2, true) => opts.map_with_path_builder::<A, _, std::io::Error>(pb).map_err(flat),
            (_, true) => opts.map_copy_read_only_with_path_builder::<A, _, std::io::Error>(pb).map_err(flat),
            _ => unreachable!(),
        }
    }
}

#[derive(Clone, Copy, Debug, PartialEq, Eq)]
pub enum AllocKind {
    Bytes,
    Aligned,
    Typed,
}

/// Performs one allocation call and returns the handle as a trait object.
/// `id` is written into `DropCounter` values.
pub fn do_alloc<A: Ar>(a: &'static A, kind: AllocKind, ty: u8, size: u32, owned: bool, id: u64) -> Result<Box<dyn AnyHandle>, Error> {
    match kind {
        AllocKind::Bytes => {
            if owned {
                a.alloc_bytes_owned(size).map(|h| Box::new(h) as Box<dyn AnyHandle>)
            } else {
                a.alloc_bytes(size).map(|h| Box::new(h) as Box<dyn AnyHandle>)
            }
        }
        AllocKind::Aligned => with_ty!(ty, T => {
            if owned {
                a.alloc_aligned_bytes_owned::<T>(size).map(|h| Box::new(h) as Box<dyn AnyHandle>)
            } else {
                a.alloc_aligned_bytes::<T>(size).map(|h| Box::new(h) as Box<dyn AnyHandle>)
            }
        }),
        AllocKind::Typed => {
            if ty == crate::types::TY_DROP {
                unsafe {
                    if owned {
                        a.alloc_owned::<DropCounter>().map(|mut h| {
                            h.write(DropCounter(id));
                            Box::new(h) as Box<dyn AnyHandle>
                        })
                    } else {
                        a.alloc::<DropCounter>().map(|mut h| {
                            h.write(DropCounter(id));
                            Box::new(h) as Box<dyn AnyHandle>
                        })
                    }
                }
            } else {
                with_ty!(ty, T => unsafe {
                    if owned {
                        a.alloc_owned::<T>().map(|h| Box::new(h) as Box<dyn AnyHandle>)
                    } else {
                        a.alloc::<T>().map(|h| Box::new(h) as Box<dyn AnyHandle>)
                    }
                })
            }
        }
    }
}

pub fn err_kind(e: &Error) -> &'static str {
    match e {
        Error::InsufficientSpace { .. } => "InsufficientSpace",
        Error::ReadOnly => "ReadOnly",
        Error::OutOfBounds { .. } => "OutOfBounds",
        _ => "Other",
    }
}

/// Unique, non-zero fill pattern of allocation `id`.
#[inline]
pub fn pattern_byte(id: u64, i: usize) -> u8 {
    let x = id.wrapping_mul(0x9E37_79B9).wrapping_add((i as u64).wrapping_mul(0x85EB_CA6B)).wrapping_add(id >> 7);
    ((x ^ (x >> 11)) % 255) as u8 + 1
}

pub fn pattern(id: u64, n: usize) -> Vec<u8> {
    (0..n).map(|i| pattern_byte(id, i)).collect()
}
