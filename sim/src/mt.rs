//! Scheduled multi-thread mode (baton scheduler). Filled in below.
use rarena_allocator::verif::Access;

pub fn before(_t: usize, _a: &Access) -> bool {
    false
}
pub fn after(_t: usize, _a: &Access) {}
pub fn plain_write(_t: usize, _addr: usize, _len: usize, _what: &'static str) {}
pub fn teardown(_t: usize, _addr: usize, _len: usize) {}
