//! Scheduled multi-thread mode: the baton scheduler.
//!
//! Simulated threads are real OS threads; exactly one holds the baton. Every
//! intercepted atomic access is a scheduling decision (`before`), taken from
//! the schedule PRNG stream (or from a recorded schedule when replaying).
//! `after` drives the trace, the shadow-store comparison, the busy-wait
//! detector and (for C12) the vector clocks; its order is the execution order.

use crate::arena::*;
use crate::exec::Violation;
use crate::hook::{self, abort_run, kind_id, short, Mode, SimAbort};
use crate::rng::{hash_add, Rng};
use crate::types::{HBox, GLOBAL_DROPS, TY_DROP};
use rarena_allocator::sync::Arena;
use rarena_allocator::verif::{Access, Kind};
use rarena_allocator::Allocator;
use serde_json::{json, Value};
use std::collections::BTreeMap;
use std::sync::atomic::Ordering;
use std::sync::{Condvar, Mutex, MutexGuard};

pub const MAXT: usize = 6;
pub const CONTROLLER: usize = usize::MAX;
pub const PARK_AFTER: u64 = 256;
pub const CONFIRM_PER_THREAD: u64 = 4096;
pub const SOLO_CALL_LIMIT: u64 = 20_000;
pub const NO_CALL_LIMIT: u64 = 50_000;

static STATE: Mutex<Option<Box<MtState>>> = Mutex::new(None);
static CVS: [Condvar; MAXT + 1] = [Condvar::new(), Condvar::new(), Condvar::new(), Condvar::new(), Condvar::new(), Condvar::new(), Condvar::new()];

fn cv(t: usize) -> &'static Condvar {
    if t == CONTROLLER {
        &CVS[MAXT]
    } else {
        &CVS[t]
    }
}

#[derive(Clone, Debug, PartialEq)]
pub enum Strategy {
    Random,
    /// switch probability per 1000 decisions
    Sticky(u32),
    /// PCT-style: priorities (higher runs first) and decision numbers at which the running thread is demoted
    Pct { prio: Vec<u32>, change: Vec<u64> },
    /// like Sticky(50) but forces a switch right after a successful CAS with probability 1/2
    Targeted,
    /// stalls a thread right *before* one of its CASes (probability per 1000) for a random number of decisions, so
    /// that other threads complete whole operations between its load and its CAS (the window of ABA-shaped bugs)
    StallBeforeCas(u32),
    /// One victim thread is put aside at arbitrary accesses (probability per 1000 at each of its accesses, any
    /// kind) for `lo..hi` decisions, several times per run, while the others run whole operations; the shape of
    /// "T is descheduled between two loads while three ordinary operations of other threads complete" (ABA).
    Victim { v: u32, p: u32, lo: u32, hi: u32 },
}

impl Strategy {
    pub fn name(&self) -> &'static str {
        match self {
            Strategy::Random => "random",
            Strategy::Sticky(_) => "sticky",
            Strategy::Pct { .. } => "pct",
            Strategy::Targeted => "targeted",
            Strategy::StallBeforeCas(_) => "stall_before_cas",
            Strategy::Victim { .. } => "victim_stall",
        }
    }
}

#[derive(Clone, Debug, PartialEq, Eq)]
pub enum TStatus {
    NotStarted,
    Running,
    Finished,
}

#[derive(Clone, Debug)]
pub struct ShadowRange {
    pub id: u64,
    pub owner: usize,
    pub off: usize,
    pub cap: usize,
    pub bytes: Vec<u8>,
}

#[derive(Clone, Debug, Default)]
pub struct LastAccess {
    pub line: u32,
    pub kind: u8,
    pub addr_norm: String,
    pub old: u64,
}

/// Vector clock.
pub type VC = Vec<u64>;

fn vc_join(a: &mut VC, b: &VC) {
    for i in 0..a.len().min(b.len()) {
        if b[i] > a[i] {
            a[i] = b[i];
        }
    }
}

fn vc_leq(a: &VC, b: &VC) -> bool {
    a.iter().zip(b.iter()).all(|(x, y)| x <= y)
}

/// FastTrack-style per-byte-range access record for plain accesses.
#[derive(Clone, Debug)]
pub struct PlainRec {
    pub off: usize,
    pub len: usize,
    pub thread: usize,
    pub clock: VC,
    pub what: &'static str,
    pub write: bool,
}

pub struct MtState {
    pub n: usize,
    pub current: usize,
    pub status: Vec<TStatus>,
    pub parked: Vec<bool>,
    pub since_change: Vec<u64>,
    pub steps_in_call: Vec<u64>,
    pub in_call: Vec<Option<String>>,
    pub last: Vec<LastAccess>,
    pub decisions: u64,
    pub steps: u64,
    pub calls_done: u64,
    pub last_call_done_at: u64,
    pub confirm_left: Option<u64>,
    pub abort: Option<(String, String)>,
    pub rng: Rng,
    pub strategy: Strategy,
    pub switch_hint: bool,
    /// the arriving access is a CAS (set by `before` for the strategy)
    pub at_cas: bool,
    pub stalled_until: Vec<u64>,
    pub schedule: Vec<(u8, u32)>,
    pub replay: Option<Vec<u8>>,
    pub replay_pos: usize,
    pub spurious: (u64, u64),
    pub spurious_rng: Rng,
    pub weak_cas_count: Vec<u64>,
    pub spurious_log: Vec<(u8, u64)>,
    pub replay_spurious: Option<Vec<(u8, u64)>>,
    pub spurious_fired: u64,
    pub base: usize,
    pub cap: usize,
    pub data_offset: usize,
    pub mbox: (usize, usize),
    pub words: [usize; 5],
    /// per thread: value-changing atomic accesses to allocator state (everything but the reference count)
    pub state_changes: Vec<u64>,
    /// functions whose plain store overwrote a removal mark that another thread had set on a node word
    pub mark_wiped: Vec<String>,
    pub torn_down: bool,
    pub teardowns: u64,
    pub shadow: Vec<ShadowRange>,
    pub trace_hash: u64,
    pub probes: BTreeMap<(u32, u8, u8), u64>,
    pub viols: Vec<Violation>,
    pub mailbox: Vec<Vec<(HBox, u64, VC, Option<u64>)>>,
    pub context_switches: u64,
    pub parks: u64,
    pub confirms: u64,
    pub overlapped_slow: bool,
    pub list_ops_in_flight: Vec<bool>,
    pub events: Option<Vec<String>>,
    // ---- C12
    pub hb: bool,
    pub clocks: Vec<VC>,
    pub loc_clock: BTreeMap<usize, VC>,
    pub plain: Vec<PlainRec>,
    pub races: u64,
    pub hb_checks: u64,
    pub max_steps: u64,
    // ---- root-cause tag: successful CAS on a list word that other threads modified since this thread last read it
    pub last_read: Vec<BTreeMap<usize, u64>>,
    pub last_mod: BTreeMap<usize, (u64, usize)>,
    pub aba: Vec<String>,
    /// node offset -> (marking thread, did the CAS that followed its mark succeed?)
    pub marks: BTreeMap<usize, (usize, Option<bool>)>,
    pub pending_mark: Vec<Option<usize>>,
    pub mark_line: Vec<u32>,
    /// removal mark of thread t that is neither unlinked nor taken back yet: (node offset, line of the mark CAS)
    pub outstanding: Vec<Option<(usize, u32)>>,
    // ---- C06 with threads in flight: memory image + obligations at atomic steps
    pub zombies: u64,
    /// ids of DropCounter values whose non-detached handle has been dropped inside the simulation
    pub expected_drops: Vec<u64>,
    pub crash_every: Option<u64>,
    pub crash_points: Vec<CrashPt>,
    pub last_global: (u32, u8, u8),
}

/// One crash point of a multi-thread run: what the page cache holds at that instant and which ranges
/// had been returned to their owners and were not being released.
pub struct CrashPt {
    pub step: u64,
    pub bytes: Vec<u8>,
    pub obligations: Vec<ShadowRange>,
    /// site tag: the pending removal mark of some thread, else the last access performed
    pub site: String,
    pub in_flight: usize,
}

pub fn lock() -> MutexGuard<'static, Option<Box<MtState>>> {
    match STATE.lock() {
        Ok(g) => g,
        Err(p) => p.into_inner(),
    }
}

pub fn with<R>(f: impl FnOnce(&mut MtState) -> R) -> R {
    let mut g = lock();
    f(g.as_mut().expect("mt state"))
}

impl MtState {
    pub fn norm(&self, addr: usize) -> String {
        if addr >= self.base && addr < self.base + self.cap {
            format!("arena+{}", addr - self.base)
        } else {
            let names = ["sentinel", "allocated", "min_segment_size", "discarded", "refs"];
            for (i, w) in self.words.iter().enumerate() {
                if *w == addr {
                    return names[i].to_string();
                }
            }
            if addr >= self.mbox.0 && addr < self.mbox.0 + self.mbox.1 {
                format!("memory+{}", addr - self.mbox.0)
            } else {
                "outside".into()
            }
        }
    }

    fn norm_id(&self, addr: usize) -> u64 {
        if addr >= self.base && addr < self.base + self.cap {
            (addr - self.base) as u64
        } else if addr >= self.mbox.0 && addr < self.mbox.0 + self.mbox.1 {
            (1 << 40) | (addr - self.mbox.0) as u64
        } else {
            u64::MAX
        }
    }

    fn allowed(&self, addr: usize, width: usize) -> bool {
        if self.torn_down {
            return false;
        }
        (addr >= self.base && addr + width <= self.base + self.cap) || (addr >= self.mbox.0 && addr + width <= self.mbox.0 + self.mbox.1)
    }

    /// Structural classification of a stuck state: walk the list from the sentinel.
    ///  * `stale-unlink`     – a node carrying the removal marker is reachable although the thread that marked it
    ///                         completed its unlink CAS (the unlink went through a predecessor that was not in the
    ///                         list, or the sentinel was changed and changed back: stale pointer / ABA)
    ///  * `mark-not-undone`  – a marked node is reachable and the marker's unlink CAS failed (or never happened)
    ///  * `list-corrupt`     – the walk does not reach the tail
    ///  * `spin-on-unlinked` – the list is well formed; the spinning threads look at nodes that are not in it
    pub fn classify_stuck(&self) -> &'static str {
        let base = self.classify_structure();
        // Whatever the list looks like in the end (a reachable mark, a cycle, spinners on nodes outside a well-formed
        // list): if, earlier in this run, a CAS succeeded on a list word that had been changed and changed back (ABA)
        // or a removal mark was wiped by a blind store, a thread has acted on a stale claim - the known family. The
        // two repaired defects (F1 `spin-on-unlinked`, F2 `mark-not-undone`) need neither, so their regressions keep
        // their own signatures.
        if base != "released" && (!self.mark_wiped.is_empty() || !self.aba.is_empty()) {
            return "stale-unlink";
        }
        base
    }

    fn classify_structure(&self) -> &'static str {
        if self.torn_down {
            return "released";
        }
        let mem = unsafe { std::slice::from_raw_parts(self.base as *const u8, self.cap) };
        let sentinel = unsafe { std::ptr::read_volatile(self.words[0] as *const u64) };
        let mut next = sentinel as u32;
        let mut n = 0;
        while next != u32::MAX {
            if next % 8 != 0 || next as usize + 8 > self.cap || n > 4096 {
                return "list-corrupt";
            }
            let w = u64::from_le_bytes(mem[next as usize..next as usize + 8].try_into().unwrap());
            if (w >> 32) == 0 {
                return match self.marks.get(&(next as usize)) {
                    Some((_, Some(true))) => "stale-unlink",
                    // a mark whose owner lost its unlink CAS: the repaired defect F2 - unless, earlier in this run, a
                    // removal mark was wiped by a blind store or a CAS succeeded on a word that had been changed and
                    // changed back (a thread acts on a stale claim), which is the known family
                    _ => "mark-not-undone",
                };
            }
            next = w as u32;
            n += 1;
        }
        "spin-on-unlinked"
    }

    fn unfinished(&self) -> Vec<usize> {
        (0..self.n).filter(|t| self.status[*t] != TStatus::Finished).collect()
    }

    fn runnable(&self) -> Vec<usize> {
        let all: Vec<usize> = (0..self.n).filter(|t| self.status[*t] != TStatus::Finished && (!self.parked[*t] || self.confirm_left.is_some())).collect();
        if self.confirm_left.is_some() {
            return all;
        }
        let awake: Vec<usize> = all.iter().cloned().filter(|t| self.stalled_until[*t] <= self.decisions).collect();
        if awake.is_empty() {
            all
        } else {
            awake
        }
    }

    fn log_decision(&mut self, t: usize) {
        let tt = if t == CONTROLLER { 255u8 } else { t as u8 };
        if let Some(l) = self.schedule.last_mut() {
            if l.0 == tt && l.1 < u32::MAX {
                l.1 += 1;
                return;
            }
        }
        self.schedule.push((tt, 1));
    }

    fn set_abort(&mut self, class: &str, detail: String) {
        if self.abort.is_none() {
            self.abort = Some((class.to_string(), detail));
        }
        for c in CVS.iter() {
            c.notify_all();
        }
    }

    pub fn violation(&mut self, prop: &'static str, class: &'static str, detail: String) {
        // Root-cause tag for safety violations: earlier in this run the blind store of the re-insertion path
        // (update_next_node) overwrote a removal mark that another thread had set on that node word - the marking
        // thread goes on with a claim that no longer exists. The class becomes `stale_claim`, the original class and
        // tag stay in the detail. (An ABA alone does not qualify: it is also what new defects of this kind produce.)
        let (class, detail) = if !self.mark_wiped.is_empty() && prop != "C07" && prop != "HARNESS" {
            ("stale_claim", format!("[{} {}] after the plain store of {} wiped a removal mark set by another thread (ABA in: {}): {}", class, crate::exec::Violation { prop, class, detail: detail.clone(), op: 0 }.signature().rsplit('|').next().unwrap_or(""), self.mark_wiped.join(", "), self.aba.join(", "), detail))
        } else {
            (class, detail)
        };
        if self.viols.len() < 8 {
            self.viols.push(Violation { prop, class, detail, op: self.steps as usize });
        }
    }

    /// Who performs the next step. `me` = the arriving thread (None when it is leaving).
    fn decide(&mut self, me: Option<usize>) -> usize {
        self.decisions += 1;
        let mut run = self.runnable();
        if run.is_empty() {
            let unf = self.unfinished();
            if unf.is_empty() {
                return CONTROLLER;
            }
            // every unfinished thread is parked: confirmation phase (V1)
            self.confirms += 1;
            self.confirm_left = Some(CONFIRM_PER_THREAD * unf.len() as u64);
            for p in self.parked.iter_mut() {
                *p = false;
            }
            run = unf;
        }
        if let Some(left) = self.confirm_left {
            if left == 0 {
                let who: Vec<String> = self
                    .unfinished()
                    .iter()
                    .map(|t| format!("T{} in {} spinning at {}:{} on {}", t, self.in_call[*t].clone().unwrap_or_default(), crate::scen::linemap().func(self.last[*t].line), self.last[*t].line, self.last[*t].addr_norm))
                    .collect();
                let sig: Vec<String> = {
                    let mut v: Vec<String> = self.unfinished().iter().map(|t| crate::scen::linemap().func(self.last[*t].line).to_string()).collect();
                    v.sort();
                    v.dedup();
                    v
                };
                let tag = format!("{} {}", self.classify_stuck(), sig.join("+"));
                let wiped = if self.mark_wiped.is_empty() { String::new() } else { format!(" (a removal mark was wiped by the plain store of {})", self.mark_wiped.join(", ")) };
                let abad = if self.aba.is_empty() { wiped } else { format!(" (earlier in this run a CAS in {} succeeded on a list word that other threads had changed and changed back since it was read: ABA){}", self.aba.join(", "), wiped) };
                self.violation("C07", "nontermination", format!("[{}] all unfinished threads busy-wait on unchanged words: {}{}", tag, who.join("; "), abad));
                self.set_abort("nontermination", "V1".into());
                return me.unwrap_or(run[0]);
            }
            self.confirm_left = Some(left - 1);
            let idx = ((self.decisions / 64) as usize) % run.len();
            return run[idx];
        }
        if let Some(rp) = &self.replay {
            let want = rp.get(self.replay_pos).copied();
            self.replay_pos += 1;
            if let Some(w) = want {
                if run.contains(&(w as usize)) {
                    return w as usize;
                }
            }
            return run[0];
        }
        let cur_ok = me.filter(|m| run.contains(m));
        match &mut self.strategy {
            Strategy::Random => run[self.rng.below(run.len() as u64) as usize],
            Strategy::Sticky(p) => {
                let p = *p as u64;
                match cur_ok {
                    Some(m) if !self.rng.chance(p, 1000) => m,
                    _ => run[self.rng.below(run.len() as u64) as usize],
                }
            }
            Strategy::Targeted => {
                let hint = std::mem::take(&mut self.switch_hint);
                match cur_ok {
                    Some(m) if !(hint && self.rng.chance(1, 2)) && !self.rng.chance(30, 1000) => m,
                    Some(m) => {
                        let others: Vec<usize> = run.iter().cloned().filter(|x| *x != m).collect();
                        if others.is_empty() {
                            m
                        } else {
                            others[self.rng.below(others.len() as u64) as usize]
                        }
                    }
                    None => run[self.rng.below(run.len() as u64) as usize],
                }
            }
            Strategy::StallBeforeCas(p) => {
                let p = *p as u64;
                let at_cas = std::mem::take(&mut self.at_cas);
                match cur_ok {
                    Some(m) if at_cas && run.len() > 1 && self.rng.chance(p, 1000) => {
                        // stall m in front of its CAS and let the others run whole operations
                        let k = match self.rng.below(4) {
                            0 => self.rng.range(3, 20),
                            1..=2 => self.rng.range(20, 120),
                            _ => self.rng.range(100, 400),
                        };
                        self.stalled_until[m] = self.decisions + k;
                        let others: Vec<usize> = run.iter().cloned().filter(|x| *x != m).collect();
                        others[self.rng.below(others.len() as u64) as usize]
                    }
                    Some(m) if !self.rng.chance(40, 1000) => m,
                    _ => run[self.rng.below(run.len() as u64) as usize],
                }
            }
            Strategy::Victim { v, p, lo, hi } => {
                let (v, p, lo, hi) = (*v as usize, *p as u64, *lo as u64, *hi as u64);
                self.at_cas = false;
                match cur_ok {
                    Some(m) if m == v && run.len() > 1 && self.rng.chance(p, 1000) => {
                        self.stalled_until[m] = self.decisions + self.rng.range(lo, hi);
                        let others: Vec<usize> = run.iter().cloned().filter(|x| *x != m).collect();
                        others[self.rng.below(others.len() as u64) as usize]
                    }
                    // the others mostly run whole operations
                    Some(m) if !self.rng.chance(15, 1000) => m,
                    _ => run[self.rng.below(run.len() as u64) as usize],
                }
            }
            Strategy::Pct { prio, change } => {
                if change.contains(&self.decisions) {
                    if let Some(m) = me {
                        let min = prio.iter().min().cloned().unwrap_or(1);
                        prio[m] = min.saturating_sub(1);
                    }
                }
                *run.iter().max_by_key(|t| (prio[**t], usize::MAX - **t)).unwrap()
            }
        }
    }
}

fn hand_over_and_wait(mut g: MutexGuard<'static, Option<Box<MtState>>>, me: usize, next: usize) -> MutexGuard<'static, Option<Box<MtState>>> {
    {
        let s = g.as_mut().unwrap();
        s.current = next;
        s.context_switches += 1;
        if next != CONTROLLER && s.list_ops_in_flight[me] && s.list_ops_in_flight[next] {
            s.overlapped_slow = true;
        }
    }
    cv(next).notify_all();
    loop {
        {
            let s = g.as_ref().unwrap();
            if s.current == me || s.abort.is_some() {
                return g;
            }
        }
        g = match cv(me).wait(g) {
            Ok(g) => g,
            Err(p) => p.into_inner(),
        };
    }
}

/// Start gate of a simulated thread.
pub fn gate(t: usize) {
    let mut g = lock();
    loop {
        {
            let s = g.as_mut().unwrap();
            if s.abort.is_some() {
                drop(g);
                abort_run("aborted", String::new());
            }
            if s.current == t {
                s.status[t] = TStatus::Running;
                return;
            }
        }
        g = match cv(t).wait(g) {
            Ok(g) => g,
            Err(p) => p.into_inner(),
        };
    }
}

/// Called by a simulated thread when its program has ended (normally or by abort).
pub fn finish_thread(t: usize) {
    let mut g = lock();
    let s = g.as_mut().unwrap();
    s.status[t] = TStatus::Finished;
    s.parked[t] = false;
    if s.hb {
        // join edge towards the controller is taken at the end
    }
    if s.abort.is_some() {
        for c in CVS.iter() {
            c.notify_all();
        }
        return;
    }
    let next = s.decide(None);
    s.log_decision(next);
    s.current = next;
    cv(next).notify_all();
}

pub fn call_begin(t: usize, what: String) {
    with(|s| {
        s.steps_in_call[t] = 0;
        s.in_call[t] = Some(what);
    });
}

pub fn call_end(t: usize) {
    with(|s| {
        s.in_call[t] = None;
        s.calls_done += 1;
        s.last_call_done_at = s.steps;
        if s.confirm_left.is_some() {
            s.confirm_left = None;
        }
        for x in s.since_change.iter_mut() {
            *x = 0;
        }
        for p in s.parked.iter_mut() {
            *p = false;
        }
    });
}

pub fn before(t: usize, a: &Access) -> bool {
    let mut g = lock();
    let s = g.as_mut().unwrap();
    if s.abort.is_some() {
        drop(g);
        abort_run("aborted", String::new());
    }
    // ---- address check (before the access happens)
    if a.width != 1 && (!s.allowed(a.addr, a.width as usize) || a.addr % a.width as usize != 0) {
        let d = format!("T{} {:?} at {}:{} ({}) on {} address (arena {} bytes{})", t, a.kind, short(a.file), a.line, crate::scen::linemap().func(a.line), if s.torn_down { "released" } else { "out-of-arena" }, s.cap, if s.torn_down { ", backing store already released" } else { "" });
        let prop: &'static str = if s.torn_down { "C13" } else { "MEMSAFETY" };
        let class: &'static str = if s.torn_down { "use_after_release" } else { "wild_access" };
        s.violation(prop, class, format!("[{}] {}", crate::scen::linemap().func(a.line), d));
        s.set_abort(class, d);
        drop(g);
        abort_run("aborted", String::new());
    }
    // ---- budgets
    s.steps += 1;
    s.steps_in_call[t] += 1;
    s.since_change[t] += 1;
    if s.since_change[t] > PARK_AFTER && !s.parked[t] && s.confirm_left.is_none() {
        s.parked[t] = true;
        s.parks += 1;
    }
    let solo = s.unfinished().len() == 1;
    if (solo && s.steps_in_call[t] > SOLO_CALL_LIMIT) || s.steps - s.last_call_done_at > NO_CALL_LIMIT || s.steps > s.max_steps {
        let f = format!("{} {}", s.classify_stuck(), crate::scen::linemap().func(a.line));
        let d = format!("[{}] T{} in {} made {} steps in one call (solo={}), {} steps since the last completed call; at {}:{}", f, t, s.in_call[t].clone().unwrap_or_default(), s.steps_in_call[t], solo, s.steps - s.last_call_done_at, short(a.file), a.line);
        s.violation("C07", "nontermination", d);
        s.set_abort("nontermination", "V2/V3".into());
        drop(g);
        abort_run("aborted", String::new());
    }
    // ---- scheduling decision
    s.at_cas = matches!(a.kind, Kind::Cas | Kind::CasWeak);
    let next = s.decide(Some(t));
    if s.abort.is_some() {
        drop(g);
        abort_run("aborted", String::new());
    }
    s.log_decision(next);
    if next != t {
        g = hand_over_and_wait(g, t, next);
        if g.as_ref().unwrap().abort.is_some() {
            drop(g);
            abort_run("aborted", String::new());
        }
    }
    let s = g.as_mut().unwrap();
    // ---- crash point: the instant before this access is performed
    if let Some(every) = s.crash_every {
        if s.steps % every.max(1) == 0 && s.crash_points.len() < 1500 && !s.torn_down {
            let bytes = unsafe { std::slice::from_raw_parts(s.base as *const u8, s.cap) }.to_vec();
            let site = match (0..s.n).find_map(|u| s.outstanding[u]) {
                Some((_, line)) => format!("mark-outstanding {}", crate::scen::linemap().func(line)),
                None if s.last_global.0 == 0 => "operation boundary".to_string(),
                None => format!("after {}:{}@{}", hook::kind_name(s.last_global.1), ["fail", "ok", "spurious"][s.last_global.2 as usize % 3], crate::scen::linemap().func(s.last_global.0)),
            };
            let in_flight = s.in_call.iter().filter(|c| c.is_some()).count();
            let obligations = s.shadow.iter().filter(|r| r.cap > 0).cloned().collect();
            let step = s.steps;
            s.crash_points.push(CrashPt { step, bytes, obligations, site, in_flight });
        }
    }
    // ---- spurious failure of a weak CAS
    if a.kind == Kind::CasWeak {
        s.weak_cas_count[t] += 1;
        let n = s.weak_cas_count[t];
        let fire = match &s.replay_spurious {
            Some(l) => l.contains(&(t as u8, n)),
            None => s.spurious.0 > 0 && s.spurious_rng.chance(s.spurious.0, s.spurious.1),
        };
        if fire {
            s.spurious_fired += 1;
            s.spurious_log.push((t as u8, n));
            return true;
        }
    }
    false
}

fn is_acquire(o: Ordering) -> bool {
    matches!(o, Ordering::Acquire | Ordering::AcqRel | Ordering::SeqCst)
}
fn is_release(o: Ordering) -> bool {
    matches!(o, Ordering::Release | Ordering::AcqRel | Ordering::SeqCst)
}

pub fn after(t: usize, a: &Access) {
    let mut g = lock();
    let s = g.as_mut().unwrap();
    let outcome: u8 = if a.spurious { 2 } else if a.success { 1 } else { 0 };
    let nid = s.norm_id(a.addr);
    s.trace_hash = hash_add(hash_add(s.trace_hash, ((t as u64) << 56) ^ nid), ((a.line as u64) << 8) | ((kind_id(a.kind) as u64) << 2) | outcome as u64);
    *s.probes.entry((a.line, kind_id(a.kind), outcome)).or_insert(0) += 1;
    s.last[t] = LastAccess { line: a.line, kind: kind_id(a.kind), addr_norm: s.norm(a.addr), old: a.old };
    s.last_global = (a.line, kind_id(a.kind), outcome);
    if let Some(ev) = s.events.as_mut() {
        if ev.len() < 20_000 {
            let nm = if a.addr >= s.base && a.addr < s.base + s.cap { format!("arena+{}", a.addr - s.base) } else { format!("hdr/mem@{:x}", a.addr & 0xfff) };
            ev.push(format!("T{} {:?} {} {}:{} old={:#x} operand={:#x} expected={:#x} ok={}{}", t, a.kind, nm, crate::scen::linemap().func(a.line), a.line, a.old, a.operand, a.expected, a.success, if a.spurious { " SPURIOUS" } else { "" }));
        }
    }
    let changed = match a.kind {
        Kind::Load => false,
        Kind::Store => a.old != a.operand,
        Kind::Cas | Kind::CasWeak => a.success && a.expected != a.operand,
        Kind::FetchAdd | Kind::FetchSub => a.operand != 0,
    };
    if a.success && matches!(a.kind, Kind::Cas) {
        s.switch_hint = true;
    }
    // ---- a plain store over a removal mark (the re-insertion path writes the node word blindly)
    if a.width == 8 && matches!(a.kind, Kind::Store) && (a.old >> 32) == 0 && (a.operand >> 32) != 0 && a.addr >= s.base && a.addr < s.base + s.cap {
        let off = a.addr - s.base;
        if matches!(s.marks.get(&off), Some((mt, _)) if *mt != t) {
            let f = crate::scen::linemap().func(a.line).to_string();
            if !s.mark_wiped.contains(&f) {
                s.mark_wiped.push(f);
            }
        }
    }
    // ---- ABA bookkeeping on 8-byte words (segment nodes and the sentinel)
    if a.width == 8 {
        if a.success && matches!(a.kind, Kind::Cas | Kind::CasWeak) {
            if let Some((ms, mt)) = s.last_mod.get(&a.addr).cloned() {
                let lr = s.last_read[t].get(&a.addr).cloned().unwrap_or(0);
                if mt != t && ms > lr {
                    let f = crate::scen::linemap().func(a.line).to_string();
                    if !s.aba.contains(&f) {
                        s.aba.push(f);
                    }
                }
            }
        }
        // outstanding removal marks: from the mark CAS until the unlink CAS succeeds or the mark is taken back
        if matches!(a.kind, Kind::Cas | Kind::CasWeak) && a.success {
            let is_mark = (a.operand >> 32) == 0 && (a.expected >> 32) != 0 && a.addr >= s.base && a.addr < s.base + s.cap;
            if is_mark {
                s.outstanding[t] = Some((a.addr - s.base, a.line));
            } else if s.outstanding[t].is_some() {
                s.outstanding[t] = None;
            }
        }
        // removal marks and the outcome of the unlink CAS that follows them
        if matches!(a.kind, Kind::Cas | Kind::CasWeak) {
            if let Some(x) = s.pending_mark[t].take() {
                if let Some(m) = s.marks.get_mut(&x) {
                    m.1 = Some(a.success);
                }
            } else if a.success && (a.operand >> 32) == 0 && (a.expected >> 32) != 0 && a.addr >= s.base && a.addr < s.base + s.cap {
                let off = a.addr - s.base;
                s.marks.insert(off, (t, None));
                s.pending_mark[t] = Some(off);
                s.mark_line[t] = a.line;
            }
        }
        let step = s.steps;
        s.last_read[t].insert(a.addr, step);
        if changed {
            s.last_mod.insert(a.addr, (step, t));
        }
    }
    // ---- C12 clocks
    if s.hb {
        hb_atomic(s, t, a, changed);
    }
    if changed && a.addr != s.words[4] && t < s.state_changes.len() {
        s.state_changes[t] += 1;
    }
    if changed {
        for x in s.since_change.iter_mut() {
            *x = 0;
        }
        for p in s.parked.iter_mut() {
            *p = false;
        }
        if s.confirm_left.is_some() {
            s.confirm_left = None;
        }
        // ---- C02: bytes of every live range equal their shadow
        if a.addr >= s.base && a.addr < s.base + s.cap {
            let off = a.addr - s.base;
            let w = a.width as usize;
            let mem = unsafe { std::slice::from_raw_parts(s.base as *const u8, s.cap) };
            let mut hit: Option<String> = None;
            for r in &s.shadow {
                if r.cap > 0 && off < r.off + r.cap && r.off < off + w {
                    if mem[r.off..r.off + r.cap] != r.bytes[..] {
                        hit = Some(format!("[{}] T{} {:?} at {}:{} ({}) changed bytes of live range id={} [{},{}) owned by T{}: word at arena+{} {:#x} -> {:#x}", crate::scen::linemap().func(a.line), t, a.kind, short(a.file), a.line, crate::scen::linemap().func(a.line), r.id, r.off, r.off + r.cap, if r.owner == CONTROLLER { 99 } else { r.owner }, off, a.old, a.operand));
                        break;
                    }
                }
            }
            if let Some(d) = hit {
                s.violation("C02", "bytes_changed", d.clone());
                s.set_abort("bytes_changed", d);
            }
        }
    }
}

pub fn plain_write(t: usize, addr: usize, len: usize, what: &'static str) {
    let mut g = lock();
    let s = g.as_mut().unwrap();
    if len == 0 {
        return;
    }
    if s.torn_down || addr < s.base || addr + len > s.base + s.cap {
        let d = format!("[{}] T{} {} would write {} bytes outside the arena buffer", what, t, what, len);
        s.violation("MEMSAFETY", "wild_write", d.clone());
        s.set_abort("wild_write", d);
        drop(g);
        abort_run("aborted", String::new());
    }
    let off = addr - s.base;
    let mut hit: Option<String> = None;
    for r in &s.shadow {
        if r.cap > 0 && off < r.off + r.cap && r.off < off + len {
            hit = Some(format!("[{}] T{} {} zeroes [{},{}) which overlaps live range id={} [{},{}) owned by T{}", what, t, what, off, off + len, r.id, r.off, r.off + r.cap, if r.owner == CONTROLLER { 99 } else { r.owner }));
            break;
        }
    }
    if let Some(d) = hit {
        s.violation("C02", "zeroed_live_range", d.clone());
        s.violation("C04", "alloc_wrote_outside_its_range", format!("[under interleaving] {}", d));
        s.set_abort("zeroed_live_range", d);
        drop(g);
        abort_run("aborted", String::new());
    }
    if s.hb {
        hb_plain(s, t, off, len, true, what);
    }
}

pub fn teardown(t: usize, _addr: usize, _len: usize) {
    let mut g = lock();
    let s = g.as_mut().unwrap();
    if s.torn_down {
        // a second release of the backing store: stop this thread *before* it frees memory twice.
        // It becomes a zombie (never resumes); the run is cut.
        s.teardowns += 1;
        let d = format!("[released twice] T{} is about to release the backing store although it has already been released (the last-handle decision was taken twice)", t);
        s.violation("C13", "teardown_count", d.clone());
        s.violation("C12", "teardown_not_last", d.clone());
        s.set_abort("teardown_twice", d);
        s.status[t] = TStatus::Finished;
        s.zombies += 1;
        for c in CVS.iter() {
            c.notify_all();
        }
        drop(g);
        loop {
            std::thread::park();
        }
    }
    s.teardowns += 1;
    if s.hb {
        let cap = s.cap;
        hb_plain(s, t, 0, cap, true, "teardown");
    }
    s.torn_down = true;
}

// ------------------------------------------------------------------ C12: happens-before

fn hb_atomic(s: &mut MtState, t: usize, a: &Access, _changed: bool) {
    let n = s.n + 1;
    let is_rmw = matches!(a.kind, Kind::Cas | Kind::CasWeak | Kind::FetchAdd | Kind::FetchSub) && a.success;
    let is_load_like = matches!(a.kind, Kind::Load) || (matches!(a.kind, Kind::Cas | Kind::CasWeak) && !a.success);
    let load_order = if is_load_like && !matches!(a.kind, Kind::Load) { a.fail_order } else { a.order };
    // atomic access vs plain accesses to the same bytes (plain/atomic conflicts)
    if a.addr >= s.base && a.addr < s.base + s.cap {
        let off = a.addr - s.base;
        let write = !is_load_like;
        hb_check_conflict(s, t, off, a.width as usize, write, "atomic access", a.line);
    }
    // acquire side
    if (is_load_like && is_acquire(load_order)) || (is_rmw && is_acquire(a.order)) {
        if let Some(lc) = s.loc_clock.get(&a.addr).cloned() {
            vc_join(&mut s.clocks[t], &lc);
        }
    }
    // release side
    if matches!(a.kind, Kind::Store) {
        if is_release(a.order) {
            let c = s.clocks[t].clone();
            s.loc_clock.insert(a.addr, c);
        } else {
            // a relaxed store breaks the release sequence
            s.loc_clock.remove(&a.addr);
        }
        s.clocks[t][t] += 1;
    } else if is_rmw {
        if is_release(a.order) {
            let c = s.clocks[t].clone();
            let e = s.loc_clock.entry(a.addr).or_insert_with(|| vec![0; n]);
            vc_join(e, &c);
        }
        // a relaxed RMW continues the release sequence: location clock unchanged
        s.clocks[t][t] += 1;
    }
}

/// Records a plain access of thread `t` to arena bytes [off, off+len) and checks it against earlier conflicting ones.
pub fn hb_plain(s: &mut MtState, t: usize, off: usize, len: usize, write: bool, what: &'static str) {
    if len == 0 {
        return;
    }
    hb_check_conflict(s, t, off, len, write, what, 0);
    let ti = if t == CONTROLLER { s.n } else { t };
    let clock = s.clocks[ti].clone();
    // drop records fully covered by this write (same or later epoch), keep the list small
    if write {
        s.plain.retain(|r| !(r.off >= off && r.off + r.len <= off + len && vc_leq(&r.clock, &clock)));
    }
    s.plain.push(PlainRec { off, len, thread: ti, clock, what, write });
    s.clocks[ti][ti] += 1;
    if s.plain.len() > 4096 {
        let cut = s.plain.len() - 2048;
        s.plain.drain(0..cut);
    }
}

fn hb_check_conflict(s: &mut MtState, t: usize, off: usize, len: usize, write: bool, what: &str, line: u32) {
    let ti = if t == CONTROLLER { s.n } else { t };
    s.hb_checks += 1;
    let mut found: Option<String> = None;
    for r in s.plain.iter() {
        if r.thread == ti {
            continue;
        }
        if !(write || r.write) {
            continue;
        }
        if off < r.off + r.len && r.off < off + len {
            // r must happen-before the current access
            if r.clock[r.thread] > s.clocks[ti][r.thread] {
                found = Some(format!("[{}->{}] {} by T{} on arena bytes [{},{}){} is not ordered after {} by T{} on [{},{})", r.what, what, what, ti, off, off + len, if line > 0 { format!(" at sync.rs:{}", line) } else { String::new() }, r.what, r.thread, r.off, r.off + r.len));
                break;
            }
        }
    }
    if let Some(d) = found {
        s.races += 1;
        s.violation("C12", "unordered_access", d);
    }
}

/// release/acquire pair of the harness mailbox, spawn and join edges
pub fn hb_send(s: &mut MtState, t: usize) -> VC {
    let c = s.clocks[t].clone();
    s.clocks[t][t] += 1;
    c
}
pub fn hb_recv(s: &mut MtState, t: usize, c: &VC) {
    vc_join(&mut s.clocks[t], c);
}

// ------------------------------------------------------------------ programs

#[derive(Clone, Debug, PartialEq, Eq)]
pub enum TOp {
    Alloc { kind: AllocKind, ty: u8, size: u32, owned: bool },
    Drop { h: usize },
    /// detach and keep for ever
    DetachForget { h: usize },
    Rewrite { h: usize },
    Check { h: usize },
    DiscardFreelist,
    CloneArena,
    DropArena,
    /// move an owned handle to thread `to`'s mailbox
    Send { h: usize, to: usize },
    Recv,
}

impl TOp {
    pub fn to_json(&self) -> Value {
        match self {
            TOp::Alloc { kind, ty, size, owned } => json!({"op": "alloc", "kind": match kind { AllocKind::Bytes => "bytes", AllocKind::Aligned => "aligned", AllocKind::Typed => "typed" }, "ty": ty, "size": size, "owned": owned}),
            TOp::Drop { h } => json!({"op": "drop", "h": h}),
            TOp::DetachForget { h } => json!({"op": "detach_forget", "h": h}),
            TOp::Rewrite { h } => json!({"op": "rewrite", "h": h}),
            TOp::Check { h } => json!({"op": "check", "h": h}),
            TOp::DiscardFreelist => json!({"op": "discard_freelist"}),
            TOp::CloneArena => json!({"op": "clone_arena"}),
            TOp::DropArena => json!({"op": "drop_arena"}),
            TOp::Send { h, to } => json!({"op": "send", "h": h, "to": to}),
            TOp::Recv => json!({"op": "recv"}),
        }
    }
    pub fn from_json(v: &Value) -> Option<TOp> {
        let u = |k: &str| v.get(k).and_then(|x| x.as_u64());
        Some(match v.get("op")?.as_str()? {
            "alloc" => TOp::Alloc {
                kind: match v.get("kind")?.as_str()? {
                    "bytes" => AllocKind::Bytes,
                    "aligned" => AllocKind::Aligned,
                    _ => AllocKind::Typed,
                },
                ty: u("ty")? as u8,
                size: u("size")? as u32,
                owned: v.get("owned")?.as_bool()?,
            },
            "drop" => TOp::Drop { h: u("h")? as usize },
            "detach_forget" => TOp::DetachForget { h: u("h")? as usize },
            "rewrite" => TOp::Rewrite { h: u("h")? as usize },
            "check" => TOp::Check { h: u("h")? as usize },
            "discard_freelist" => TOp::DiscardFreelist,
            "clone_arena" => TOp::CloneArena,
            "drop_arena" => TOp::DropArena,
            "send" => TOp::Send { h: u("h")? as usize, to: u("to")? as usize },
            "recv" => TOp::Recv,
            _ => return None,
        })
    }
}

pub struct THandle {
    pub h: HBox,
    pub rid: u64,
    pub owned: bool,
    pub drop_id: Option<u64>,
    pub arena_idx: Option<usize>,
}

pub struct ThreadEnd {
    pub handles: Vec<THandle>,
    pub arenas: Vec<Option<Box<Arena>>>,
    pub aborted: bool,
    pub ops_done: usize,
}
unsafe impl Send for ThreadEnd {}

impl Drop for ThreadEnd {
    fn drop(&mut self) {
        // never release into a list that may be corrupted: detach whatever is left
        for h in self.handles.iter_mut() {
            h.h.0.detach_();
        }
    }
}

pub struct ThreadStart {
    pub t: usize,
    pub arenas: Vec<Option<Box<Arena>>>,
    pub prog: Vec<TOp>,
    pub id_base: u64,
}
unsafe impl Send for ThreadStart {}

fn arena_ref(arenas: &[Option<Box<Arena>>]) -> Option<(usize, &'static Arena)> {
    for (i, a) in arenas.iter().enumerate() {
        if let Some(b) = a {
            return Some((i, unsafe { &*(b.as_ref() as *const Arena) }));
        }
    }
    None
}

fn check_intact(s: &mut MtState, t: usize, rid: u64, when: &str) {
    if let Some(r) = s.shadow.iter().find(|r| r.id == rid) {
        if r.cap > 0 {
            let mem = unsafe { std::slice::from_raw_parts(s.base as *const u8, s.cap) };
            if mem[r.off..r.off + r.cap] != r.bytes[..] {
                let i = (0..r.cap).find(|i| mem[r.off + i] != r.bytes[*i]).unwrap();
                let d = format!("[plain] bytes of live range id={} [{},{}) of T{} differ from what its owner wrote ({}): byte +{} is {:#x}, expected {:#x}", r.id, r.off, r.off + r.cap, t, when, i, mem[r.off + i], r.bytes[i]);
                s.violation("C02", "bytes_changed", d);
            }
        }
    }
}

/// Body of a simulated thread.
pub fn thread_main(st: ThreadStart) -> ThreadEnd {
    let t = st.t;
    let mut arenas = st.arenas;
    let mut handles: Vec<THandle> = Vec::new();
    let mut next_id = st.id_base;
    let mut ops_done = 0usize;
    hook::set_mode(Mode::Mt(t));
    let r = std::panic::catch_unwind(std::panic::AssertUnwindSafe(|| {
        gate(t);
        for op in st.prog.iter() {
            run_top(t, op, &mut arenas, &mut handles, &mut next_id);
            ops_done += 1;
        }
    }));
    hook::set_mode(Mode::Off);
    let aborted = match r {
        Ok(()) => false,
        Err(p) => {
            if p.downcast_ref::<SimAbort>().is_none() {
                let (_, msg) = crate::exec::panic_message(&p);
                with(|s| {
                    s.violation("CRASH", "panic", format!("[panic] T{} panicked: {}", t, msg));
                    s.set_abort("panic", msg);
                });
            }
            true
        }
    };
    finish_thread(t);
    ThreadEnd { handles: std::mem::take(&mut handles), arenas: std::mem::take(&mut arenas), aborted, ops_done }
}

fn run_top(t: usize, op: &TOp, arenas: &mut Vec<Option<Box<Arena>>>, handles: &mut Vec<THandle>, next_id: &mut u64) {
    match op {
        TOp::Alloc { kind, ty, size, owned } => {
            let Some((aidx, a)) = arena_ref(arenas) else { return };
            let id = *next_id;
            *next_id += 1;
            call_begin(t, format!("alloc({:?},ty={},size={},owned={})", kind, ty, size, owned));
            with(|s| s.list_ops_in_flight[t] = true);
            let r = do_alloc(a, *kind, *ty, *size, *owned, id);
            call_end(t);
            match r {
                Ok(mut h) => {
                    let (off, cap, boff, bcap) = h.meta();
                    let p = h.wptr();
                    let bad = with(|s| {
                        s.list_ops_in_flight[t] = false;
                        let mut bad = false;
                        if cap > 0 {
                            if off < s.data_offset || off + cap > s.cap || boff + bcap > s.cap + 8 {
                                s.violation("C02", "out_of_bounds", format!("[alloc] T{} got range [{},{}) outside the data area [{},{})", t, off, off + cap, s.data_offset, s.cap));
                                s.violation("C04", "out_of_capacity", format!("[under interleaving] T{} was handed [{},{}) on an arena of {} bytes", t, off, off + cap, s.cap));
                                bad = true;
                            }
                            let allocated = a.verif_header().1 as usize;
                            if !bad && off + cap > allocated {
                                s.violation("C02", "out_of_bounds", format!("[alloc] T{} got range [{},{}) above allocated() = {}", t, off, off + cap, allocated));
                            }
                            for r in &s.shadow {
                                if r.cap > 0 && off < r.off + r.cap && r.off < off + cap {
                                    let d = format!("[alloc] T{} was handed [{},{}) which overlaps live range id={} [{},{}) of T{}", t, off, off + cap, r.id, r.off, r.off + r.cap, if r.owner == CONTROLLER { 99 } else { r.owner });
                                    s.violation("C02", "overlap", d.clone());
                                    s.violation("C04", "ok_handle_overlaps", format!("[under interleaving] {}", d));
                                    bad = true;
                                    break;
                                }
                            }
                        }
                        if bad {
                            s.set_abort("overlap", "handed out overlapping / out-of-bounds range".into());
                        }
                        bad
                    });
                    if bad {
                        std::mem::forget(h);
                        abort_run("aborted", String::new());
                    }
                    // write the unique pattern through the handle, register in the shadow store
                    let mut bytes = if cap > 0 { unsafe { std::slice::from_raw_parts(a.raw_ptr().add(off), cap) }.to_vec() } else { Vec::new() };
                    // C03 under interleavings: requested capacity and alignment
                    {
                        let ti = crate::types::ty_info(*ty);
                        let bad: Option<String> = match kind {
                            AllocKind::Bytes => (cap != *size as usize).then(|| format!("alloc_bytes({}) returned capacity {}", size, cap)),
                            AllocKind::Typed => (ti.size > 0 && (cap != ti.size || off % ti.align != 0)).then(|| format!("alloc::<{}>() returned offset {} capacity {}", ti.name, off, cap)),
                            AllocKind::Aligned => {
                                let need = if ti.size == 0 { *size as usize } else { ti.size + *size as usize };
                                ((need > 0 && off % ti.align != 0) || cap < need).then(|| format!("alloc_aligned_bytes::<{}>({}) returned offset {} (align {}) capacity {} < {}", ti.name, size, off, ti.align, cap, need))
                            }
                        };
                        if let Some(d) = bad {
                            with(|s| {
                                s.violation("C03", "layout", format!("[under interleaving] T{} {}", t, d));
                                // C04: a successful allocation call returns a handle satisfying C01 / C03
                                s.violation("C04", "ok_handle_violates_layout", format!("[under interleaving] T{} {}", t, d));
                            });
                        }
                    }
                    // C08 under interleavings: alloc_bytes returns zero-filled memory
                    if *kind == AllocKind::Bytes {
                        if let Some(i) = bytes.iter().position(|b| *b != 0) {
                            with(|s| s.violation("C08", "not_zeroed", format!("[alloc_bytes under interleaving] T{} alloc_bytes({}) -> [{},{}) byte +{} is {:#x} at return", t, size, off, off + cap, i, bytes[i])));
                        }
                    }
                    if !p.is_null() && cap > 0 {
                        bytes = pattern(id, cap);
                        unsafe { std::ptr::copy_nonoverlapping(bytes.as_ptr(), p, cap) };
                    }
                    with(|s| {
                        if s.hb && cap > 0 {
                            hb_plain(s, t, off, cap, true, "owner write");
                        }
                        s.shadow.push(ShadowRange { id, owner: t, off, cap, bytes });
                    });
                    handles.push(THandle { h: HBox(h), rid: id, owned: *owned, drop_id: if *kind == AllocKind::Typed && *ty == TY_DROP { Some(id) } else { None }, arena_idx: if *owned { None } else { Some(aidx) } });
                }
                Err(_) => {
                    with(|s| s.list_ops_in_flight[t] = false);
                }
            }
        }
        TOp::Drop { h } => {
            if handles.is_empty() {
                return;
            }
            let th = handles.remove(h % handles.len());
            with(|s| {
                if let Some(id) = th.drop_id {
                    s.expected_drops.push(id);
                }
                check_intact(s, t, th.rid, "before its release");
                if let Some(pos) = s.shadow.iter().position(|r| r.id == th.rid) {
                    let r = s.shadow.remove(pos);
                    if s.hb && r.cap > 0 {
                        hb_plain(s, t, r.off, r.cap, false, "owner read");
                    }
                }
                s.list_ops_in_flight[t] = true;
            });
            // C13 under interleavings: a handle that is dropped without having been detached gives its extent back -
            // to the cursor, to the list or to discarded(); a drop that changes nothing released nothing
            let (_, _, _, bcap) = th.h.0.meta();
            let before = with(|s| s.state_changes[t]);
            call_begin(t, "drop(handle)".into());
            drop(th);
            call_end(t);
            with(|s| {
                s.list_ops_in_flight[t] = false;
                if bcap > 0 && s.state_changes[t] == before && s.abort.is_none() {
                    s.violation("C13", "release_nothing", format!("[under interleaving] T{} dropped a handle with a buffer extent of {} bytes and the arena did not change: not given back to the cursor, not linked into the free list, not added to discarded()", t, bcap));
                }
            });
        }
        TOp::DetachForget { h } => {
            if handles.is_empty() {
                return;
            }
            let i = h % handles.len();
            if handles[i].owned {
                return; // an owned handle embeds an arena value; keeping it is modelled by simply not dropping it
            }
            let mut th = handles.remove(i);
            th.h.0.detach_();
            drop(th);
            // the range stays in the shadow store for ever (owner keeps it)
        }
        TOp::Rewrite { h } => {
            if handles.is_empty() {
                return;
            }
            let i = h % handles.len();
            let id = *next_id;
            *next_id += 1;
            let p = handles[i].h.0.wptr();
            let (_, cap, _, _) = handles[i].h.0.meta();
            if p.is_null() || cap == 0 {
                return;
            }
            let rid = handles[i].rid;
            with(|s| check_intact(s, t, rid, "before rewriting"));
            let bytes = pattern(id, cap);
            unsafe { std::ptr::copy_nonoverlapping(bytes.as_ptr(), p, cap) };
            with(|s| {
                if let Some(pos) = s.shadow.iter().position(|r| r.id == rid) {
                    let (off, cap) = (s.shadow[pos].off, s.shadow[pos].cap);
                    s.shadow[pos].bytes = bytes;
                    if s.hb {
                        hb_plain(s, t, off, cap, true, "owner write");
                    }
                }
            });
        }
        TOp::Check { h } => {
            if handles.is_empty() {
                return;
            }
            let rid = handles[h % handles.len()].rid;
            with(|s| check_intact(s, t, rid, "mid-life check"));
        }
        TOp::DiscardFreelist => {
            let Some((_, a)) = arena_ref(arenas) else { return };
            call_begin(t, "discard_freelist".into());
            let _ = a.discard_freelist();
            call_end(t);
        }
        TOp::CloneArena => {
            let Some((_, a)) = arena_ref(arenas) else { return };
            if arenas.iter().flatten().count() >= 3 {
                return;
            }
            call_begin(t, "clone".into());
            let c = a.clone();
            call_end(t);
            arenas.push(Some(Box::new(c)));
        }
        TOp::DropArena => {
            // drop one arena value that no borrowed handle of this thread refers to
            let idx = (0..arenas.len()).rev().find(|i| arenas[*i].is_some() && !handles.iter().any(|h| h.arena_idx == Some(*i)));
            if let Some(i) = idx {
                call_begin(t, "drop(arena)".into());
                arenas[i] = None;
                call_end(t);
            }
        }
        TOp::Send { h, to } => {
            let cand: Vec<usize> = (0..handles.len()).filter(|i| handles[*i].owned).collect();
            if cand.is_empty() {
                return;
            }
            let th = handles.remove(cand[h % cand.len()]);
            with(|s| {
                let to = to % s.n;
                let c = if s.hb { hb_send(s, t) } else { Vec::new() };
                if let Some(r) = s.shadow.iter_mut().find(|r| r.id == th.rid) {
                    r.owner = to;
                }
                s.mailbox[to].push((th.h, th.rid, c, th.drop_id));
                // remember drop id through rid: DropCounter handles are never sent (generator avoids), so None
            });
        }
        TOp::Recv => {
            let got = with(|s| {
                if s.mailbox[t].is_empty() {
                    None
                } else {
                    let (h, rid, c, did) = s.mailbox[t].remove(0);
                    if s.hb {
                        hb_recv(s, t, &c);
                    }
                    Some((h, rid, did))
                }
            });
            if let Some((h, rid, did)) = got {
                handles.push(THandle { h, rid, owned: true, drop_id: did, arena_idx: None });
            }
        }
    }
}

// ------------------------------------------------------------------ controller

pub struct MtParams {
    pub n: usize,
    pub strategy: Strategy,
    pub sched_seed: u64,
    pub spurious: (u64, u64),
    pub replay_schedule: Option<Vec<(u8, u32)>>,
    pub replay_spurious: Option<Vec<(u8, u64)>>,
    pub hb: bool,
    pub record_events: bool,
    pub max_steps: u64,
    pub crash_every: Option<u64>,
}

pub fn expand_schedule(rle: &[(u8, u32)]) -> Vec<u8> {
    let mut v = Vec::new();
    for (t, n) in rle {
        for _ in 0..*n {
            v.push(*t);
        }
    }
    v
}

/// Installs the global state for one run. `arena` is any value of the shared arena.
pub fn install(arena: &Arena, p: &MtParams, initial_shadow: Vec<ShadowRange>) {
    let (words, mbox) = arena.verif_words();
    let n = p.n;
    let st = MtState {
        n,
        current: CONTROLLER,
        status: vec![TStatus::NotStarted; n],
        parked: vec![false; n],
        since_change: vec![0; n],
        steps_in_call: vec![0; n],
        in_call: vec![None; n],
        last: vec![LastAccess::default(); n],
        decisions: 0,
        steps: 0,
        calls_done: 0,
        last_call_done_at: 0,
        confirm_left: None,
        abort: None,
        rng: Rng::new(p.sched_seed),
        strategy: p.strategy.clone(),
        switch_hint: false,
        at_cas: false,
        stalled_until: vec![0; n],
        schedule: Vec::new(),
        replay: p.replay_schedule.as_ref().map(|r| expand_schedule(r)),
        replay_pos: 0,
        spurious: p.spurious,
        spurious_rng: Rng::new(p.sched_seed ^ 0x5555),
        weak_cas_count: vec![0; n],
        spurious_log: Vec::new(),
        replay_spurious: p.replay_spurious.clone(),
        spurious_fired: 0,
        base: arena.raw_ptr() as usize,
        cap: arena.capacity(),
        data_offset: arena.data_offset(),
        mbox,
        words,
        state_changes: vec![0; n],
        mark_wiped: Vec::new(),
        torn_down: false,
        teardowns: 0,
        shadow: initial_shadow,
        trace_hash: 0,
        probes: BTreeMap::new(),
        viols: Vec::new(),
        mailbox: (0..n).map(|_| Vec::new()).collect(),
        context_switches: 0,
        parks: 0,
        confirms: 0,
        overlapped_slow: false,
        list_ops_in_flight: vec![false; n],
        events: if p.record_events { Some(Vec::new()) } else { None },
        hb: p.hb,
        clocks: (0..=n).map(|i| {
            let mut v = vec![0u64; n + 1];
            v[i] = 1;
            v
        }).collect(),
        loc_clock: BTreeMap::new(),
        plain: Vec::new(),
        races: 0,
        hb_checks: 0,
        max_steps: p.max_steps,
        last_read: (0..n).map(|_| BTreeMap::new()).collect(),
        last_mod: BTreeMap::new(),
        aba: Vec::new(),
        marks: BTreeMap::new(),
        pending_mark: vec![None; n],
        mark_line: vec![0; n],
        outstanding: vec![None; n],
        zombies: 0,
        expected_drops: Vec::new(),
        crash_every: p.crash_every,
        crash_points: Vec::new(),
        last_global: (0, 0, 0),
    };
    *lock() = Some(Box::new(st));
}

/// Runs the threads to completion (or abort) and returns their final states plus the simulator state.
pub fn run_threads(starts: Vec<ThreadStart>) -> (Vec<ThreadEnd>, Box<MtState>) {
    let n = starts.len();
    // spawn edge: every thread starts after everything the controller did
    with(|s| {
        if s.hb {
            let c = s.clocks[n].clone();
            for t in 0..n {
                vc_join(&mut s.clocks[t], &c);
            }
            s.clocks[n][n] += 1;
        }
    });
    let (tx, rx) = std::sync::mpsc::channel::<ThreadEnd>();
    for st in starts {
        let b = std::thread::Builder::new().stack_size(512 * 1024).name(format!("sim-T{}", st.t));
        let tx = tx.clone();
        // detached: a thread stopped in front of a double free never returns (see `teardown`)
        let _ = b
            .spawn(move || {
                let end = thread_main(st);
                let _ = tx.send(end);
            })
            .expect("spawn");
    }
    drop(tx);
    // hand the baton to the first decision
    {
        let mut g = lock();
        let s = g.as_mut().unwrap();
        let first = s.decide(None);
        s.log_decision(first);
        s.current = first;
        cv(first).notify_all();
    }
    let mut ends = Vec::new();
    loop {
        let zombies = with(|s| s.zombies) as usize;
        if ends.len() + zombies >= n {
            break;
        }
        match rx.recv_timeout(std::time::Duration::from_millis(50)) {
            Ok(e) => ends.push(e),
            Err(std::sync::mpsc::RecvTimeoutError::Timeout) => {}
            Err(std::sync::mpsc::RecvTimeoutError::Disconnected) => break,
        }
    }
    let st = lock().take().expect("state");
    (ends, st)
}

pub fn drained_drops() -> Vec<u64> {
    std::mem::take(&mut *GLOBAL_DROPS.lock().unwrap())
}
